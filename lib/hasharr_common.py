"""qhasharr description for pipeline.run_container (specs HashArrImpl.tla / MC_HashArr.tla / HashArrTrace.tla)."""
import vf

NAME, MODULE, TRACE_MODULE, HARNESS, FIELDS = "hasharr", "MC_HashArr", "HashArrTrace", "replay_hasharr", ("a", "vid", "len")
HOMES = {"HomeA": [0, 0, 1], "HomeB": [0, 0, 0], "HomeF": [0, 1, 2], "HomeC": [0, 1, 1, 2], "HomeD": [0, 0, 1, 1],
         "HomeE": [1, 1, 1, 3], "Home2": [0, 0, 1]}


def _fix_ops(segs):
    # the model labels carry (a, vid, len); non-put operations have zeros
    return segs


def _model(tag, n, hn, lens, profiles, mc_only=False, workers=2, heap="4g", max_steps=None):
    homes = HOMES[hn]
    nk = len(homes)
    return dict(tag=tag, consts=dict(N=n, Keys=set(range(1, nk + 1)), Lens=set(lens), D1=1, D2=1), subst=dict(Home=hn),
                invariants=["Inv"], properties=["PutRule"], workers=workers, heap=heap, mc_only=mc_only, maxseg=600, max_steps=max_steps,
                trace_consts=dict(N=n, NKeys=nk, Lens={1}, D1=32, D2=66), trace_subst=dict(Home="HomeT", Keys="KeysN"),
                replays=[dict(tag="n%d-p%d" % (n, p), args=(lambda s, t, fl, n=n, nk=nk, homes=homes, p=p:
                                                              [s, t, n, nk, ",".join(map(str, homes)), p, fl])) for p in profiles])


def models(tier):
    if tier == "cross":
        return [_model("N3-F", 3, "HomeF", [1, 2], [3]), _model("N2", 2, "Home2", [1, 2], [0])]
    if tier == "quick":
        return [_model("N3-A", 3, "HomeA", [1, 2, 3], [2]),
                _model("N3-B", 3, "HomeB", [1, 3], [1]),
                _model("N3-F", 3, "HomeF", [1, 2], [5]),
                _model("N2", 2, "Home2", [1, 2], [0]),
                _model("N4-C", 4, "HomeC", [1, 2, 3], [], mc_only=True, workers=8, heap="8g")]
    return [_model("N3-A", 3, "HomeA", [1, 2, 3], [0, 3, 4]),
            _model("N3-B", 3, "HomeB", [1, 2, 3], [1, 2]),
            _model("N3-F", 3, "HomeF", [1, 2, 3], [5, 0]),
            _model("N2", 2, "Home2", [1, 2], [0, 3]),
            _model("N4-C", 4, "HomeC", [1, 2], [2], workers=8, heap="8g", max_steps=250000),
            _model("N4-C3", 4, "HomeC", [1, 2, 3], [], mc_only=True, workers=8, heap="8g"),
            _model("N4-D", 4, "HomeD", [1, 2, 3], [], mc_only=True, workers=8, heap="8g"),
            _model("N4-E", 4, "HomeE", [1, 2, 3], [], mc_only=True, workers=8, heap="8g")]


def _rand(rng, steps, n, nk):
    seg = []
    for s in range(steps):
        r = rng.random()
        k = rng.randint(1, nk)
        if r < 0.5:
            ln = rng.choice([1, 2, 31, 32, 33, 34, 97, 98, 99, 100, 163, 164, 165, 230, 231, rng.randint(1, 66 * n)])
            vid = rng.randint(1, 5)            # 5: a C string, stored through putstr / putstrf and read back through getstr
            ln = max(4, ln) if ln in (1, 2, 3) else ln
            if vid >= 3: ln = max(ln, 8)          # values 3/4 equal value 1 up to an embedded NUL at offset 5
            if vid <= 2 and rng.random() < 0.04: ln = 0      # an empty value: refused (invalid argument), nothing changes
            seg.append(dict(op="put", a=k, vid=vid, len=ln))
        elif r < 0.7: seg.append(dict(op="rm", a=k, vid=0, len=0))
        elif r < 0.85: seg.append(dict(op="get", a=k, vid=0, len=0))
        elif r < 0.97: seg.append(dict(op="rmidx", a=rng.randint(0, n - 1), vid=0, len=0))
        elif r < 0.99: seg.append(dict(op="size", a=0, vid=0, len=0))
        else: seg.append(dict(op="clear", a=0, vid=0, len=0))
    return seg


def randoms(tier, rng):
    out = []
    caps = [(2, 4), (5, 8), (16, 20)] if tier == "quick" else [(3, 5), (8, 10)] if tier == "cross" else [(2, 4), (3, 6), (5, 8), (8, 12), (16, 24), (64, 60)]
    for (n, nk) in caps:
        steps = 1200 if tier == "quick" else 500 if tier == "cross" else 4000
        p = rng.randint(0, 5)
        if n == caps[-1][0]: p = 8 + 2 * rng.randint(0, 2)       # one run with huge keys (17 .. 65535 bytes)
        out.append(dict(tag="n%d" % n, segs=[_rand(rng, steps, n, nk) for _ in range(2)],
                        trace_consts=dict(N=n, NKeys=nk, Lens={1}, D1=32, D2=66),
                        trace_subst=dict(Home="HomeT", Keys="KeysN"),
                        replays=[dict(tag="n%d-p%d" % (n, p), args=(lambda s, t, fl, n=n, nk=nk, p=p: [s, t, n, nk, "-", p, fl]))]))
    return out
