"""Core of the qLibc verification framework: building harnesses from /repo's working tree,
running TLC (model checking with transition dump, trace validation), touring dumped
transition graphs, evidence and known-findings handling.

Nothing in here decides a property: TLC's verdict on a specification (model run) or on a
trace recorded from the real code (trace validation) does.  See DESIGN.md section 2."""
import os, sys, json, subprocess, hashlib, time, shutil, collections, glob, re, random, threading
from concurrent.futures import ThreadPoolExecutor

VERIF = os.path.dirname(os.path.dirname(os.path.abspath(__file__)))
REPO = os.environ.get("VERIF_REPO", "/repo")
BUILD = os.path.join(VERIF, "build")
OUT = os.environ.get("VERIF_OUT", VERIF)       # evidence/ and replays/ live here (overridden by bin/mutate)
SPEC = os.path.join(VERIF, "spec")
HARNESS = os.path.join(VERIF, "harness")
NCPU = os.cpu_count() or 4
TLA_JAR = "/opt/veriftools/tla/tla2tools.jar:/opt/veriftools/tla/CommunityModules-deps.jar"


class Infra(Exception):
    """Failure of the checking machinery itself (never a VIOLATION)."""


def log(*a):
    print("[vf]", *a, file=sys.stderr, flush=True)


def sh(cmd, **kw):
    return subprocess.run(cmd, **kw)


# ---------------------------------------------------------------------------------
# Building
# ---------------------------------------------------------------------------------
LIB_DIRS = ["containers", "utilities", "ipc", "internal", "internal/md5", "extensions"]
MODES = {
    # name: (compiler, cflags, ldflags)
    "plain": ("gcc", ["-O1", "-g", "-fno-builtin", "-fno-omit-frame-pointer"], []),
    "asan": ("clang", ["-O1", "-g", "-fsanitize=address,undefined", "-fno-sanitize-recover=undefined",
                       "-fno-omit-frame-pointer", "-DVH_SANITIZER"], ["-fsanitize=address,undefined"]),
    # for properties that do not speak about undefined behaviour as such (C19): no report for forming str-1 on an empty string
    "asanx": ("clang", ["-O1", "-g", "-fsanitize=address,undefined", "-fno-sanitize=pointer-overflow", "-fno-sanitize-recover=undefined",
                        "-fno-omit-frame-pointer", "-DVH_SANITIZER"], ["-fsanitize=address,undefined"]),
    "tsan": ("clang", ["-O1", "-g", "-fsanitize=thread", "-fno-omit-frame-pointer", "-DVH_SANITIZER", "-DVH_TSAN"],
             ["-fsanitize=thread"]),
}
BASE_FLAGS = ["-std=gnu99", "-D_GNU_SOURCE", "-DQLIBC_VERIF", "-w", "-pthread",
              "-I%s/include/qlibc" % REPO, "-I%s/include" % REPO, "-I%s/src/internal" % REPO,
              "-I%s" % HARNESS]
WRAP_ALLOC = ["malloc", "calloc", "realloc", "free", "strdup", "strndup"]
WRAP_LOCK = ["pthread_mutex_trylock", "pthread_mutex_lock", "pthread_mutex_unlock", "usleep"]
WRAP_COPY = ["memcpy", "strcpy", "strncpy"]


def _sha(paths_or_bytes):
    h = hashlib.sha1()
    for p in paths_or_bytes:
        if isinstance(p, bytes):
            h.update(p)
        else:
            with open(p, "rb") as f:
                h.update(f.read())
            h.update(p.encode())
    return h.hexdigest()


def lib_sources():
    out = []
    for d in LIB_DIRS:
        out += sorted(glob.glob(os.path.join(REPO, "src", d, "*.c")))
    return out


def lib_headers():
    hs = []
    for root in (os.path.join(REPO, "include"), os.path.join(REPO, "src")):
        for dp, _, fs in os.walk(root):
            hs += [os.path.join(dp, f) for f in fs if f.endswith(".h")]
    hs += glob.glob(os.path.join(HARNESS, "*.h"))
    return sorted(hs)


_hdr_hash = None


def _compile_one(args):
    cc, flags, src, obj = args
    os.makedirs(os.path.dirname(obj), exist_ok=True)
    tmp = "%s.%d.%d.tmp" % (obj, os.getpid(), threading.get_ident())
    r = sh([cc] + flags + ["-c", src, "-o", tmp], capture_output=True, text=True)
    if r.returncode != 0:
        return (src, r.stderr)
    os.replace(tmp, obj)
    return None


_build_lock = threading.Lock()


def build(name, mode="plain", wraps=(), defines=(), extra_src=(), libs=()):
    """Compile /repo's current sources + harness/<name>.c (+vh.c) into build/<mode>/bin/<name>[-variant].
    Objects are cached by content hash (source + all headers + flags), so a changed /repo file is
    always recompiled and an unchanged one never is."""
    with _build_lock:
        return _build(name, mode, wraps, defines, extra_src, libs)


def _build(name, mode, wraps, defines, extra_src, libs):
    global _hdr_hash
    if _hdr_hash is None:
        _hdr_hash = _sha(lib_headers())
    cc, cflags, ldflags = MODES[mode]
    flags = BASE_FLAGS + cflags + ["-D%s" % d for d in defines]
    fkey = hashlib.sha1((" ".join([cc] + flags) + _hdr_hash).encode()).hexdigest()[:12]
    srcs = lib_sources() + [os.path.join(HARNESS, "vh.c"), os.path.join(HARNESS, name + ".c")] + list(extra_src)
    jobs, objs = [], []
    for s in srcs:
        key = _sha([s])[:16]
        obj = os.path.join(BUILD, mode, "obj", fkey, os.path.basename(s) + "." + key + ".o")
        objs.append(obj)
        if not os.path.exists(obj):
            jobs.append((cc, flags, s, obj))
    if jobs:
        with ThreadPoolExecutor(NCPU) as ex:
            errs = [e for e in ex.map(_compile_one, jobs) if e]
        if errs:
            raise Infra("compile failed: %s\n%s" % errs[0])
    variant = hashlib.sha1((" ".join(sorted(wraps)) + " ".join(objs)).encode()).hexdigest()[:10]
    exe = os.path.join(BUILD, mode, "bin", "%s-%s" % (name, variant))
    if not os.path.exists(exe):
        os.makedirs(os.path.dirname(exe), exist_ok=True)
        wl = ["-Wl,--wrap=%s" % w for w in wraps]
        tmp = "%s.%d.tmp" % (exe, os.getpid())
        r = sh([cc] + objs + ["-o", tmp] + ldflags + wl + ["-pthread", "-lm"] + list(libs),
               capture_output=True, text=True)
        if r.returncode != 0:
            raise Infra("link failed for %s: %s" % (name, r.stderr[-3000:]))
        os.replace(tmp, exe)
    return exe


# ---------------------------------------------------------------------------------
# TLC
# ---------------------------------------------------------------------------------
class TlcResult:
    def __init__(self):
        self.rc = None; self.out = ""; self.generated = 0; self.distinct = 0
        self.ok = False; self.violation = None; self.wall = 0.0; self.lines = []
        self.outfile = None


_tlc_seq = [0]


def write_cfg(path, constants=None, init="Init", next_="Next", invariants=(), properties=(), view=None,
              action_constraints=(), constraints=(), postcondition=None, deadlock=False, subst=None, spec=None):
    L = []
    if constants or subst:
        L.append("CONSTANTS")
        for k, v in (constants or {}).items():
            L.append(" %s = %s" % (k, tla_val(v)))
        for k, v in (subst or {}).items():
            L.append(" %s <- %s" % (k, v))
    if spec:
        L.append("SPECIFICATION %s" % spec)
    else:
        L.append("INIT %s" % init); L.append("NEXT %s" % next_)
    for i in invariants: L.append("INVARIANT %s" % i)
    for p in properties: L.append("PROPERTY %s" % p)
    if view: L.append("VIEW %s" % view)
    for a in action_constraints: L.append("ACTION_CONSTRAINT %s" % a)
    for c in constraints: L.append("CONSTRAINT %s" % c)
    if postcondition: L.append("POSTCONDITION %s" % postcondition)
    L.append("CHECK_DEADLOCK %s" % ("TRUE" if deadlock else "FALSE"))
    with open(path, "w") as f:
        f.write("\n".join(L) + "\n")


def tla_val(v):
    if isinstance(v, bool): return "TRUE" if v else "FALSE"
    if isinstance(v, int): return str(v)
    if isinstance(v, str): return '"%s"' % v
    if isinstance(v, (set, frozenset)): return "{" + ", ".join(tla_val(x) for x in sorted(v, key=str)) + "}"
    if isinstance(v, Raw): return v.s
    raise ValueError(v)


class Raw:
    def __init__(self, s): self.s = s


def tlc(module, cfg, workers=None, env=None, timeout=900, outfile=None, heap="4g", extra=(), cwd=SPEC,
        dfs=False, keep_lines=None):
    """Run TLC on spec/<module>.tla with configuration file `cfg`.  Output goes to `outfile`
    (so multi-megabyte transition dumps never sit in memory); summary fields are parsed."""
    _tlc_seq[0] += 1
    meta = os.path.join(BUILD, "tlc", "%d-%d-%d" % (os.getpid(), _tlc_seq[0], int(time.time() * 1000) % 100000))
    os.makedirs(meta, exist_ok=True)
    if outfile is None:
        outfile = os.path.join(meta, "out.txt")
    jopts = ["-XX:+UseParallelGC", "-Xmx" + heap, "-Xss64m"]
    if dfs:
        jopts.append("-Dtlc2.tool.queue.IStateQueue=StateDeque")
    cmd = ["timeout", str(timeout), "java"] + jopts + ["-cp", TLA_JAR, "tlc2.TLC",
           "-workers", str(workers or 1), "-metadir", meta, "-config", cfg, "-noGenerateSpecTE"] + list(extra) + [module]
    e = dict(os.environ)
    e.pop("JAVA_TOOL_OPTIONS", None)
    if env: e.update({k: str(v) for k, v in env.items()})
    t0 = time.time()
    for attempt in range(3):
        with open(outfile, "w") as of:
            p = sh(cmd, cwd=cwd, env=e, stdout=of, stderr=subprocess.STDOUT)
        if p.returncode not in (-9, 137):
            break
        # killed from outside (memory pressure from concurrent runs): wait for the machine to settle and start over
        shutil.rmtree(os.path.join(meta, "states"), ignore_errors=True)
        for f in os.listdir(meta):
            if f != os.path.basename(outfile):
                shutil.rmtree(os.path.join(meta, f), ignore_errors=True) if os.path.isdir(os.path.join(meta, f)) else os.remove(os.path.join(meta, f))
        time.sleep(60 * (attempt + 1))
    r = TlcResult(); r.rc = p.returncode; r.wall = time.time() - t0; r.outfile = outfile
    keep = []
    with open(outfile, errors="replace") as f:
        for line in f:
            if line.startswith('"{') or line.startswith('"SCHED ') or line.startswith('"LINOK ') or line.startswith('"DOC '):
                continue
            if len(keep) < 20000:
                keep.append(line.rstrip("\n"))
            m = re.match(r"(\d+) states generated, (\d+) distinct states found", line)
            if m:
                r.generated, r.distinct = int(m.group(1)), int(m.group(2))
    r.lines = keep
    text = "\n".join(keep)
    r.out = text
    r.ok = (p.returncode == 0 and "Model checking completed. No error has been found." in text)
    if "is violated" in text or "Postcondition" in text and "false" in text.lower():
        r.violation = True
    if keep_lines is None:
        shutil.rmtree(os.path.join(meta, "states"), ignore_errors=True)
    r.meta = meta
    return r


def tlc_cleanup(r):
    shutil.rmtree(r.meta, ignore_errors=True)


def read_dump(outfile):
    """Edges printed by `ACTION_CONSTRAINT Dump` (PrintT(ToJson(...)) lines)."""
    edges = []
    with open(outfile, errors="replace") as f:
        for line in f:
            if line.startswith('"{'):
                edges.append(json.loads(json.loads(line)))
    return edges


# ---------------------------------------------------------------------------------
# Tour: cover every dumped edge at least once, starting from `init`
# ---------------------------------------------------------------------------------
def tour(edges, init_key=None, maxseg=400, key=lambda s: json.dumps(s, sort_keys=True)):
    adj = collections.defaultdict(list)
    seen = set()
    for e in edges:
        f, t = key(e["from"]), key(e["to"])
        sig = (f, json.dumps(e["op"], sort_keys=True), t)
        if sig in seen:
            continue
        seen.add(sig)
        adj[f].append((e["op"], t))
    if init_key is None:
        init_key = key(edges[0]["from"])
    todo = {s: list(range(len(es))) for s, es in adj.items()}
    remaining = sum(len(v) for v in todo.values()); total = remaining
    out, seg, cur = [], [], init_key

    # shortest path from the initial state to every state, computed once: a new segment reaches its first uncovered edge along it
    parent = {init_key: None}; order = [init_key]; q = collections.deque([init_key])
    while q:
        s_ = q.popleft()
        for op, t in adj.get(s_, ()):
            if t not in parent:
                parent[t] = (s_, op); order.append(t); q.append(t)
    pending = collections.deque(order)

    def path_from_init(dst):
        path = []
        while parent[dst] is not None:
            p_, op = parent[dst]; path.append((op, dst)); dst = p_
        return list(reversed(path))

    def bfs(src, limit):
        """nearest state with an uncovered edge, looking at no more than `limit` states"""
        prev = {src: None}; q = collections.deque([src])
        while q and len(prev) <= limit:
            s = q.popleft()
            if todo.get(s):
                path = []
                while prev[s] is not None:
                    p, op = prev[s]; path.append((op, s)); s = p
                return list(reversed(path))
            for op, t in adj.get(s, ()):
                if t not in prev:
                    prev[t] = (s, op); q.append(t)
        return None

    while remaining:
        if todo.get(cur) and len(seg) < maxseg:
            i = todo[cur].pop(); op, t = adj[cur][i]; seg.append(op); cur = t; remaining -= 1
            continue
        path = bfs(cur, 3000) if len(seg) < maxseg else None
        if path is None:
            if seg: out.append(seg)
            seg = []; cur = init_key
            while pending and not todo.get(pending[0]): pending.popleft()
            if not pending:
                break                   # what is left cannot be reached from the initial state
            for op, t in path_from_init(pending[0]): seg.append(op); cur = t
            continue
        for op, t in path: seg.append(op); cur = t
    if seg: out.append(seg)
    return out, dict(edges=total, uncovered=remaining, segments=len(out), steps=sum(len(s) for s in out),
                     states=len(adj))


# ---------------------------------------------------------------------------------
# Trace validation
# ---------------------------------------------------------------------------------
REJECT_RE = re.compile(r'^"REJECT ')


def validate(module, cfg, trace, timeout=900, heap="4g", env=None, workers=1, dfs=False):
    """Validate a recorded ndjson trace against a trace spec.  Returns dict(accepted, rejects, infra)."""
    e = {"TRACE": trace}
    if env: e.update(env)
    r = tlc(module, cfg, workers=workers, env=e, timeout=timeout, heap=heap, dfs=dfs)
    rejects = []
    for i, line in enumerate(r.lines):
        if REJECT_RE.match(line):
            try:
                d = json.loads(json.loads(line)[7:])
                rejects.append((int(d["l"]), json.dumps(d)))
            except Exception:
                rejects.append((-1, line))
    conform = None
    for line in r.lines:
        if line.startswith('"CONFORM '):
            a = line.strip('"').split()
            conform = (int(a[1]), int(a[2]))
    infra = None
    if r.rc not in (0, 12, 13):
        infra = "tlc exit %s: %s" % (r.rc, "\n".join(r.lines[-15:]))
    if r.rc == 0 and not r.ok:
        infra = "tlc did not complete: %s" % "\n".join(r.lines[-15:])
    if r.rc in (12, 13) and not rejects:
        # invariant/postcondition violated without a REJECT line: the trace was not consumed
        rejects.append((-1, "trace not consumed: " + " | ".join(l for l in r.lines[-12:] if l.strip())))
    res = dict(accepted=(r.ok and not rejects), rejects=rejects, infra=infra, generated=r.generated,
               distinct=r.distinct, wall=r.wall, rc=r.rc, conform=conform)
    tlc_cleanup(r)
    return res


def count_lines(path):
    n = 0
    with open(path, "rb") as f:
        for _ in f: n += 1
    return n


# ---------------------------------------------------------------------------------
# Known findings, evidence, verdicts
# ---------------------------------------------------------------------------------
def known_findings():
    p = os.path.join(VERIF, "known-findings.json")
    if not os.path.exists(p):
        return {"findings": [], "fixed": []}
    return json.load(open(p))


class Check:
    """Book-keeping for one property check run."""

    def __init__(self, pid, level, tier, seed):
        self.pid, self.level, self.tier, self.seed = pid, level, tier, seed
        self.t0 = time.time()
        self.cov = dict(states=0, transitions=0, traces_validated_against_impl=0, evaluations=0,
                        distinct_nontrivial=0, samples=[], rule="", exhaustive=False)
        self.assumptions = []
        self.violations = []      # (signature, text, replay dict)
        self.known = []
        self.infra = []
        self.parts = {}
        self._distinct = set()

    def note(self, key, val):
        self.parts[key] = val

    def add_mc(self, name, r, extra=None):
        if not r.ok:
            if r.violation:
                self.violation("mc:%s" % name, "TLC found a violation in model %s:\n%s" % (name, "\n".join(r.lines[-40:])),
                               dict(kind="model", model=name))
            else:
                self.infra.append("model run %s failed rc=%s: %s" % (name, r.rc, "\n".join(r.lines[-10:])))
        self.cov["states"] += r.distinct
        self.cov["transitions"] += r.generated
        d = dict(distinct=r.distinct, generated=r.generated, wall_s=round(r.wall, 1), ok=r.ok)
        if extra: d.update(extra)
        self.parts.setdefault("models", {})[name] = d

    def add_cases(self, n, distinct_keys=None, distinct_n=None):
        self.cov["evaluations"] += n
        if distinct_keys is not None:
            for k in distinct_keys: self._distinct.add(k)
        if distinct_n is not None:
            self.cov["distinct_nontrivial"] += distinct_n

    def sample(self, s):
        if len(self.cov["samples"]) < 6:
            self.cov["samples"].append(s)

    def violation(self, sig, text, replay):
        self.violations.append((sig, text, replay))

    def finish(self):
        kf = known_findings()
        listed = {f["signature"]: f for f in kf.get("findings", []) if f.get("property") == self.pid}
        self.cov["distinct_nontrivial"] += len(self._distinct)
        rc = 0
        nviol = 0
        os.makedirs(os.path.join(OUT, "evidence"), exist_ok=True)
        reported = set()
        for sig, text, replay in self.violations:
            if sig in listed:
                if sig not in reported:
                    print("KNOWN-FINDING: property=%s %s" % (self.pid, listed[sig].get("what", sig)), flush=True)
                    reported.add(sig)
                continue
            nviol += 1
            if nviol > 20:
                continue
            d = os.path.join(OUT, "replays", self.pid)
            os.makedirs(d, exist_ok=True)
            h = hashlib.sha1((sig + text).encode()).hexdigest()[:12]
            path = os.path.join(d, h + ".json")
            with open(path, "w") as f:
                json.dump(dict(property=self.pid, signature=sig, detail=text, replay=replay, seed=self.seed,
                               tier=self.tier), f, indent=1,
                          default=lambda o: sorted(o) if isinstance(o, (set, frozenset)) else str(o))
            print(text[:3000], file=sys.stderr)
            print("VIOLATION property=%s replay=%s" % (self.pid, path), flush=True)
            rc = 1
        # listed findings that did not show up are simply not printed
        ev = dict(property_id=self.pid, tier=self.tier, seed=self.seed, level=self.level, coverage=self.cov,
                  assumptions=self.assumptions, wall_s=round(time.time() - self.t0, 1), violations=nviol)
        self.cov.update(self.parts)
        if self.infra:
            ev["coverage"]["infrastructure_failures"] = self.infra[:10]
        if self.cov["evaluations"] < 1: self.cov["evaluations"] = max(1, self.cov["transitions"])
        with open(os.path.join(OUT, "evidence", self.pid + ".json"), "w") as f:
            json.dump(ev, f, indent=1, default=str)
        if self.infra and rc == 0:
            for m in self.infra[:5]:
                print("INFRA: " + (m if len(m) < 6000 else m[:2500] + "\n...\n" + m[-3000:]), file=sys.stderr)
            rc = 2
        if rc == 0:
            shutil.rmtree(os.path.join(BUILD, "work", "p%d" % os.getpid()), ignore_errors=True)
        else:
            print("scratch files kept under %s" % os.path.join(BUILD, "work", "p%d" % os.getpid()), file=sys.stderr)
        return rc
