"""Shared driver for the reference-definition checks (C16-C20): run a record generator built from /repo's sources,
validate the records with a TLA+ trace specification, turn REJECT lines into violations."""
import os, json, subprocess
from concurrent.futures import ThreadPoolExecutor
import vf, pipeline


def gen_and_validate(chk, harness, jobs, trace_module, constants=None, mode="plain", threads=8, owned=None, init="Init", next_="Next",
                     subst=None, timeout=600, heap="4g", extra_wraps=()):
    """jobs: list of dict(tag, args=[... '{out}' placeholder ...], env?).  Returns total records."""
    exe = vf.build(harness, mode=mode, wraps=pipeline.default_wraps(mode) + list(extra_wraps))
    wd = pipeline.workdir("ref-" + harness)
    total = [0]

    def one(job):
        out = os.path.join(wd, "%s-%s-%s.ndjson" % (chk.pid, job["tag"], mode))
        if os.path.exists(out): os.remove(out)
        e = dict(os.environ)
        e["ASAN_OPTIONS"] = "detect_leaks=1:abort_on_error=0:exitcode=66:allocator_may_return_null=1"
        e["UBSAN_OPTIONS"] = "print_stacktrace=1:halt_on_error=1:exitcode=67"
        e.update(job.get("env", {}))
        start = 0
        allerr = []
        rc = 0
        for attempt in range(job.get("max_restarts", 1)):
            args = [str(a).replace("{out}", out).replace("{start}", str(start)) for a in job["args"]]
            if attempt > 0: e["VH_APPEND"] = "1"
            try:
                p = subprocess.run([exe] + args, capture_output=True, text=True, timeout=timeout, env=e, errors="replace", cwd=job.get("cwd"))
                rc1, err = p.returncode, p.stderr
            except subprocess.TimeoutExpired:
                rc1, err = -99, "generator timed out"
            if rc1 == 0:
                break
            if rc1 == -99:
                # the overall time limit of the generator (a slow machine), not an event of the code under test: every single call
                # runs under its own watchdog.  A restartable generator continues behind the last complete record; otherwise the
                # records written so far are judged and the shortfall is noted.
                lines = []
                if os.path.exists(out):
                    with open(out) as f: lines = f.read().split("\n")
                    if lines and not lines[-1].endswith("}"):
                        lines = lines[:-1]                  # drop a half-written record
                    lines = [l for l in lines if l]
                    with open(out, "w") as f: f.write("\n".join(lines) + ("\n" if lines else ""))
                if job.get("one_line_per_input") and "{start}" in " ".join(map(str, job["args"])) and attempt + 1 < job.get("max_restarts", 1):
                    start = len(lines)
                    continue
                chk.parts.setdefault("generator_time_limit", []).append("%s/%s (%s): stopped after %d records" % (harness, job["tag"], mode, len(lines)))
                break
            rc = rc1; allerr.append(err[-2500:])
            last = ""
            lines = []
            if os.path.exists(out):
                with open(out) as f: lines = f.read().rstrip("\n").split("\n")
                last = lines[-1] if lines else ""
            step = None
            if '"op":"crash"' in last or '"op":"timeout"' in last:
                try:
                    d = json.loads(last); d["fn"] = d.get("op", "crash"); step = d.get("step"); lines[-1] = json.dumps(d)
                    with open(out, "w") as f: f.write("\n".join(lines) + "\n")
                except Exception:
                    pass
            else:
                # sanitizer exit or hard kill: log it here; the failing input is the one after the last record
                with open(out, "a") as f:
                    if last and not last.endswith("}"): f.write("\n")
                    f.write(json.dumps({"fn": "crash", "op": "crash", "sig": rc1, "where": job["tag"], "after": last[:300]}) + "\n")
                # every input yields exactly one line (record or crash), so the next input index is the line count
                step = len(lines) if job.get("one_line_per_input") else None
            if step is None or "{start}" not in " ".join(map(str, job["args"])) or rc1 == -99:
                break
            start = int(step) + 1
        err = "\n".join(allerr)
        if not os.path.exists(out) or vf.count_lines(out) == 0:
            chk.infra.append("generator %s/%s produced nothing (rc=%s): %s" % (harness, job["tag"], rc, err[-400:]))
            return
        cfg = os.path.join(wd, "%s-%s-%s.cfg" % (chk.pid, job["tag"], mode))
        vf.write_cfg(cfg, constants=constants or {}, init=init, next_=next_, postcondition="Consumed", subst=subst)
        n = vf.count_lines(out)
        res = vf.validate(trace_module, cfg, out, timeout=1800, heap=heap)
        if res["infra"]:
            chk.infra.append("validation %s/%s: %s" % (harness, job["tag"], res["infra"])); return
        nrej = 0
        for (l, txt) in res["rejects"]:
            nrej += 1
            if nrej > 3: break
            why = pipeline.parse_why(txt)
            if owned is not None and why and not (why & owned):
                continue
            try:
                ev = json.loads(txt).get("ev", {})
            except Exception:
                ev = {}
            sig = "%s:%s:%s" % (harness, ",".join(sorted(why)), json.dumps(ev.get("inp", ev.get("doc", ev.get("where", ""))))[:80])
            chk.violation(sig, "record %d of %s/%s (%s) rejected by %s:\n%s\nstderr tail:\n%s" % (l, harness, job["tag"], mode, trace_module, txt[:2500], err[-2500:] if rc else ""),
                          dict(kind="record", harness=harness, mode=mode, args=args, trace_module=trace_module, record=ev))
        total[0] += n
        chk.cov["traces_validated_against_impl"] += 1
        chk.add_cases(n, distinct_n=n)
        if len(chk.cov["samples"]) < 4:
            with open(out) as f:
                chk.sample(dict(job=job["tag"], records=[next(f, "").strip()[:400] for _ in range(3)]))
        if nrej == 0: os.remove(out)

    with ThreadPoolExecutor(threads) as ex:
        list(ex.map(one, jobs))
    return total[0]
