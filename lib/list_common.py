"""qlist / qqueue / qstack / qgrow description for pipeline.run_container (spec List.tla)."""
import vf

NAME, MODULE, TRACE_MODULE, HARNESS, FIELDS = "list", "List", "ListTrace", "replay_list", ("i", "v")


def _replays(kind, profiles):
    return [dict(tag="%s-p%d" % (kind, p), args=(lambda s, t, fl, kind=kind, p=p: [s, t, kind, p, fl])) for p in profiles]


def models(tier):
    ml = 3 if tier == "cross" else 4 if tier == "quick" else 5
    ms = []
    ms.append(dict(tag="list", consts=dict(MaxLen=ml, Vals={1, 2, 3}, Maxes={0, 1, 3}, Kind="list"),
                   invariants=["TypeOK"], properties=["LimitRespected", "RefusalsHarmless"],
                   replays=_replays("list", [0, 1, 2, 3, 4, 5] if tier == "thorough" else [0, 4])))
    for kind in ("queue", "stack"):
        ms.append(dict(tag=kind, consts=dict(MaxLen=ml, Vals={1, 2, 3, 4}, Maxes={0, 2}, Kind=kind),
                       invariants=["TypeOK"], properties=["LimitRespected", "RefusalsHarmless"],
                       replays=_replays(kind, [0, 2, 4] if tier == "thorough" else [0, 4] if kind == "queue" else [0])))
    ms.append(dict(tag="grow", consts=dict(MaxLen=ml, Vals={1, 2, 3}, Maxes={0}, Kind="grow"),
                   invariants=["TypeOK"], properties=["RefusalsHarmless"],
                   replays=_replays("grow", [0, 1, 3, 5] if tier == "thorough" else [0, 5])))
    return ms


def _rand_list(rng, steps, maxn):
    idx = ["getat", "popat", "removeat"]
    noarg = ["getfirst", "getlast", "popfirst", "poplast", "removefirst", "removelast", "reverse", "toarray", "tostring",
             "walk", "sizes"]
    seg = []; n = 0; mx = 0; grow = True
    for s in range(steps):
        if n >= maxn: grow = False
        if n <= 2: grow = True
        r = rng.random()
        if r < 0.01:
            mx = rng.choice([0, 0, n, n + 1, max(1, n - 1), 1]); seg.append(dict(op="setsize", i=mx, v=0)); continue
        if r < 0.013:
            seg.append(dict(op="clear", i=0, v=0)); n = 0; continue
        i = rng.randint(-n - 2, n + 2) if rng.random() < 0.5 else rng.choice([0, -1, n, n - 1, -n, -n - 1, n + 1, 1, n // 2, n // 2 - 1])
        v = rng.randint(1, 4)
        p = rng.random()
        if p < (0.5 if grow else 0.2):
            op = rng.choice(["addat", "addfirst", "addlast"])
            seg.append(dict(op=op, i=i if op == "addat" else 0, v=v))
            full = mx > 0 and n >= mx
            if not full:
                if op == "addat":
                    k = n + i + 1 if i < 0 else i
                    if 0 <= k <= n: n += 1
                else:
                    n += 1
        elif p < 0.8:
            op = rng.choice(idx + ["popfirst", "poplast", "removefirst", "removelast"]) if not grow or rng.random() < 0.4 else "getat"
            if op in idx:
                seg.append(dict(op=op, i=i, v=0))
                k = n + i if i < 0 else i
                if op != "getat" and 0 <= k < n: n -= 1
            else:
                seg.append(dict(op=op, i=0, v=0))
                if n > 0: n -= 1
        else:
            op = rng.choice(noarg)
            if op in ("toarray", "tostring", "walk") and rng.random() < 0.7 and n > 30:
                op = "sizes"
            seg.append(dict(op=op, i=0, v=0))
            if (op.startswith("pop") or op.startswith("remove")) and n > 0: n -= 1
    return seg


def _rand_front(rng, steps, kind):
    seg = []
    for s in range(steps):
        r = rng.random()
        if kind == "grow":
            op = "push" if r < 0.8 else rng.choice(["toarray", "tostring", "sizes", "clear"] if r > 0.99 else ["toarray", "tostring", "sizes"])
            seg.append(dict(op=op, i=0, v=rng.randint(1, 4) if op == "push" else 0))
        else:
            if r < 0.5: seg.append(dict(op="push", i=0, v=rng.randint(1, 4)))
            elif r < 0.8: seg.append(dict(op="pop", i=0, v=0))
            elif r < 0.9: seg.append(dict(op=rng.choice(["getat", "popat"]), i=rng.randint(-6, 6), v=0))
            elif r < 0.98: seg.append(dict(op=rng.choice(["get", "sizes"]), i=0, v=0))
            elif r < 0.99: seg.append(dict(op="setsize", i=rng.choice([0, 3, 10]), v=0))
            else: seg.append(dict(op="clear", i=0, v=0))
    return seg


def randoms(tier, rng):
    nseg, steps = (4, 1500) if tier == "quick" else (2, 500) if tier == "cross" else (16, 4000)
    out = []
    big = dict(MaxLen=1000000, Vals={1, 2, 3, 4}, Maxes={0}, Kind="list")
    out.append(dict(tag="list", segs=[_rand_list(rng, steps, 500 if k % 2 == 0 else 30) for k in range(nseg)], trace_consts=big,
                    replays=_replays("list", [rng.randint(0, 3)])))
    for kind in ("queue", "stack", "grow"):
        c = dict(big); c["Kind"] = kind
        out.append(dict(tag=kind, segs=[_rand_front(rng, steps // 3, kind) for k in range(nseg)], trace_consts=c,
                        replays=_replays(kind, [rng.randint(0, 3)])))
    return out
