"""qtreetbl description for pipeline.run_container (specs TreeImpl.tla / SortedMap.tla / TreeTrace.tla)."""
import vf

NAME, MODULE, TRACE_MODULE, HARNESS, FIELDS = "tree", "TreeImpl", "TreeTrace", "replay_tree", ("a", "b")
TRACE_CONSTS = dict(MaxKey=100000, Vals={1, 2, 3, 4, 5, 6, 7}, TidMod=256, WithIter=True, FixWrap=True, FixRootNext=True)


def _replays(profiles, shapemax=15):
    return [dict(tag="p%d" % p, args=(lambda s, t, fl, p=p: [s, t, p, fl, shapemax])) for p in profiles]


def _remap_values(segs, rot):
    """The model uses value ids 1,2; rotate them through the harness's value kinds (empty, embedded NUL, C string)."""
    table = [{1: 1, 2: 2}, {1: 3, 2: 1}, {1: 4, 2: 6}, {1: 2, 2: 3}, {1: 1, 2: 7}][rot % 5]       # 7 is a proper prefix of 1
    out = []
    for seg in segs:
        out.append([dict(o, b=table.get(o["b"], o["b"])) if o["op"] == "put" else o for o in seg])
    return out


def _prelude(segs):
    """Advance the real 8-bit epoch counter honestly (through the API) so that each tour segment crosses the
    wrap-around at a different point: put 1; next; abandon; j complete walks; rm 1."""
    out = []
    for i, seg in enumerate(segs):
        d = (i * 3) % 26                      # distance to the wrap when the segment proper starts
        target = 255 - d                      # epoch value wanted (the constructor leaves it at 1)
        resets = target - 1
        pre = [dict(op="put", a=1, b=1)]
        if resets % 2 == 1:
            pre += [dict(op="next", a=0, b=0), dict(op="abandon", a=0, b=0)]; resets -= 1
        pre += [dict(op="walk", a=0, b=0)] * (resets // 2)
        pre += [dict(op="rm", a=1, b=0)]
        out.append(pre + seg)
    return out


def models(tier):
    base = dict(TidMod=4, FixWrap=True, FixRootNext=True)
    inv = ["Good", "TreeValid"]
    prop = ["RefinesSortedMap"]
    ms = []
    if tier == "cross":
        return [dict(tag="vals-K4", consts=dict(base, MaxKey=4, Vals={1, 2}, WithIter=False), invariants=inv, properties=prop,
                     workers=2, trace_consts=TRACE_CONSTS, replays=_replays([1]), prelude=lambda segs: _remap_values(segs, 2)),
                dict(tag="shape-K6", consts=dict(base, MaxKey=6, Vals={1}, WithIter=False), invariants=inv, properties=prop,
                     workers=2, trace_consts=TRACE_CONSTS, replays=_replays([0])),
                dict(tag="iter-K3", consts=dict(base, MaxKey=3, Vals={1}, WithIter=True), invariants=inv, properties=prop,
                     workers=4, trace_consts=TRACE_CONSTS, replays=_replays([3]), prelude=_prelude)]
    k1 = 8 if tier == "quick" else 10
    ms.append(dict(tag="shape-K%d" % k1, consts=dict(base, MaxKey=k1, Vals={1}, WithIter=False), invariants=inv, properties=prop,
                   workers=4, trace_consts=TRACE_CONSTS, replays=_replays([0, 1, 2, 3, 4]), heap="8g"))
    ms.append(dict(tag="vals-K5", consts=dict(base, MaxKey=5, Vals={1, 2}, WithIter=False), invariants=inv, properties=prop,
                   workers=2, trace_consts=TRACE_CONSTS, replays=_replays([1, 0, 3, 2]),
                   prelude=lambda segs: _remap_values(segs, 2)))       # values 4/6: same size, equal up to an embedded NUL
    ms.append(dict(tag="empty-K4", consts=dict(base, MaxKey=4, Vals={1, 2}, WithIter=False), invariants=inv, properties=prop,
                   workers=2, trace_consts=TRACE_CONSTS, replays=_replays([0, 1, 2, 3]),
                   prelude=lambda segs: _remap_values(segs, 1)))
    ms.append(dict(tag="prefix-K4", consts=dict(base, MaxKey=4, Vals={1, 2}, WithIter=False), invariants=inv, properties=prop,
                   workers=2, trace_consts=TRACE_CONSTS, replays=_replays([4, 1] if tier == "quick" else [4, 0, 1, 2]),
                   prelude=lambda segs: _remap_values(segs, 4)))        # a value and a proper prefix of it; equal keys spelled differently
    ms.append(dict(tag="iter-K3", consts=dict(base, MaxKey=3, Vals={1}, WithIter=True), invariants=inv, properties=prop,
                   workers=4, trace_consts=TRACE_CONSTS, replays=_replays([1, 0] if tier == "quick" else [0, 1, 2, 3, 4]),       # 1: keys of different lengths
                   prelude=_prelude))
    ms.append(dict(tag="iter-K4", consts=dict(base, MaxKey=4, Vals={1}, WithIter=True), invariants=inv, properties=prop,
                   workers=8, mc_only=(tier == "quick"), trace_consts=TRACE_CONSTS, replays=_replays([0, 3]), prelude=_prelude,
                   heap="8g"))
    if tier == "thorough":
        ms.append(dict(tag="iter-K5-T3", consts=dict(base, MaxKey=5, Vals={1}, WithIter=True, TidMod=3), invariants=inv, properties=[],
                       workers=8, mc_only=True, heap="8g", replays=[]))
        ms.append(dict(tag="shape-K12", consts=dict(base, MaxKey=12, Vals={1}, WithIter=False), invariants=inv, properties=prop,
                       workers=8, mc_only=True, heap="8g", replays=[]))
    return ms


def _rand(rng, steps, nkeys, walks=True):
    """Random history that respects the hypotheses of C03/C04: no mutation while a step-wise walk is in progress,
    continuation after a nearest-key search only when no walk was left unfinished."""
    seg = []
    present = set()
    unfinished = False
    s = 0

    def stepwise(first_op):
        # a walk driven call by call: it is either abandoned part-way or run to its end (n keys, then the end report)
        nonlocal unfinished
        seg.append(first_op)
        n = len(present)
        if first_op["op"] == "nearest":
            taken = 0
        else:
            taken = 1
        unfinished = True
        if rng.random() < 0.5:
            k = rng.randint(0, max(0, min(6, n - taken)))
            seg.extend([dict(op="next", a=0, b=0)] * k)
            if taken + k <= n:
                seg.append(dict(op="abandon", a=0, b=0))
                return
            taken += k
        seg.extend([dict(op="next", a=0, b=0)] * (n - taken + 1))
        unfinished = False

    while s < steps:
        s += 1
        r = rng.random()
        k = rng.randint(1, nkeys)
        if r < 0.38:
            seg.append(dict(op="put", a=k, b=rng.choice([1, 2, 2, 3, 4, 5, 6, 4, 6, 7, 1, 7]))); present.add(k)
        elif r < 0.60:
            if present and rng.random() < 0.7:
                k = rng.choice(tuple(present)) if len(present) < 50 or rng.random() < 0.3 else k
            seg.append(dict(op="rm", a=k, b=0)); present.discard(k)
        elif r < 0.75:
            seg.append(dict(op="get", a=k, b=0))
        elif r < 0.80:
            seg.append(dict(op=rng.choice(["min", "max", "size"]), a=0, b=0))
        elif r < 0.803:
            seg.append(dict(op="clear", a=0, b=0)); present.clear()
        elif r < 0.90:
            cont = 1 if (present and not unfinished and walks and rng.random() < 0.3 and len(present) < 400) else 0
            op = dict(op="nearest", a=rng.randint(0, nkeys + 1), b=cont)
            if cont:
                stepwise(op)
            else:
                seg.append(op)
        elif walks:
            if rng.random() < 0.6 and len(present) < 3000:
                seg.append(dict(op="walk", a=0, b=0))
                if present: unfinished = False
            elif present and len(present) < 400:
                stepwise(dict(op="next", a=0, b=0))
    return seg


def _rmloops(rng, nseg):
    """The documented removal in an iteration loop (getnext; removeobj + find_nearest "rewind" for some of the returned keys; until
    getnext reports the end), on trees of various sizes and after various histories; a complete walk and lookups follow."""
    segs = []
    for _ in range(nseg):
        seg = []
        nk = rng.choice([1, 2, 3, 5, 8, 13, 30, 60])
        keys = rng.sample(range(1, 4 * nk + 1), nk)
        for k in keys: seg.append(dict(op="put", a=k, b=rng.choice([1, 2, 5, 7])))
        for _ in range(rng.randint(0, 3)):
            seg.append(dict(op=rng.choice(["walk", "min", "max"]), a=0, b=0))
        for rnd in range(rng.randint(1, 3)):
            p = rng.choice([0.1, 0.35, 0.7, 1.0])
            for _ in range(nk + 1):
                seg.append(dict(op="next", a=0, b=0))
                if rng.random() < p: seg.append(dict(op="rmnext", a=0, b=0))
            seg.extend([dict(op="next", a=0, b=0)] * 2)      # whatever is left of the sweep, then the end report
            seg.append(dict(op="abandon", a=0, b=0))
            seg.append(dict(op="walk", a=0, b=0))
            for k in rng.sample(keys, min(3, len(keys))): seg.append(dict(op="get", a=k, b=0))
            for k in rng.sample(range(1, 4 * nk + 1), min(4, nk)): seg.append(dict(op="put", a=k, b=1))
        segs.append(seg)
    return segs


def randoms(tier, rng):
    out = []
    plan = [(2, 6000, 40), (1, 8000, 2000)] if tier == "quick" else [(1, 1500, 30), (1, 2000, 120)] if tier == "cross" else [(6, 8000, 40), (3, 20000, 2000), (2, 30000, 10000)]
    for n, (nseg, steps, nkeys) in enumerate(plan):
        out.append(dict(tag="k%d" % nkeys, segs=[_rand(rng, steps, nkeys) for _ in range(nseg)], trace_consts=TRACE_CONSTS,
                        replays=_replays([rng.randint(0, 4), (n + 1) % 5] if tier == "thorough" else [1 if n == 0 else rng.choice([0, 2, 3, 4])])))
    out.append(dict(tag="rmloop", segs=_rmloops(rng, 30 if tier == "quick" else 8 if tier == "cross" else 200), trace_consts=TRACE_CONSTS,
                    replays=_replays([rng.randint(0, 4), rng.randint(0, 4)] if tier != "cross" else [rng.randint(0, 4)])))
    # walk bursts: hundreds of traversal starts on small trees (epoch wrap-around, C03)
    burst = []
    for _ in range(2 if tier == "quick" else 1 if tier == "cross" else 6):
        seg = []
        keys = list(range(1, 8))
        for rnd in range(80 if tier == "quick" else 30 if tier == "cross" else 200):
            seg.append(dict(op="put", a=rng.choice(keys), b=1))
            seg.append(dict(op="rm", a=rng.choice(keys), b=0))
            for _ in range(rng.randint(1, 6)):
                if rng.random() < 0.3:
                    seg.append(dict(op="next", a=0, b=0)); seg.append(dict(op="abandon", a=0, b=0))
                seg.append(dict(op="walk", a=0, b=0))
            seg.append(dict(op="nearest", a=rng.randint(0, 8), b=0))
        burst.append(seg)
    out.append(dict(tag="burst", segs=burst, trace_consts=TRACE_CONSTS, replays=_replays([rng.randint(0, 3)])))
    # epoch cycles: stamps written by one walk must not be mistaken for "visited" a whole counter period later.
    # spin(n) = n traversal starts abandoned after one element (each advances the epoch, stamps only the minimum)
    cyc = []
    for c in range(4 if tier == "quick" else 1 if tier == "cross" else 12):
        seg = []
        nk = rng.randint(2, 7)
        have = set(rng.sample(range(1, 9), nk))
        for k in sorted(have, key=lambda _: rng.random()):
            seg.append(dict(op="put", a=k, b=1))
        for rnd in range(4 if tier == "quick" else 2 if tier == "cross" else 8):
            # a complete or partial walk leaves stamps behind
            if rng.random() < 0.6:
                seg.append(dict(op="walk", a=0, b=0))
            else:
                j = rng.randint(1, len(have))
                seg += [dict(op="next", a=0, b=0)] * j + [dict(op="abandon", a=0, b=0)]
            n = rng.choice([252, 253, 254, 255, 256, 257, 508, 509, 510, 511])
            seg += [dict(op="next", a=0, b=0), dict(op="abandon", a=0, b=0)] * n
            seg.append(dict(op="walk", a=0, b=0))
            seg.append(dict(op="nearest", a=rng.randint(0, 9), b=1))
            # the continuation is run to its end (or given up explicitly): the table is never modified under a live cursor
            seg += [dict(op="next", a=0, b=0)] * (len(have) + 1) + [dict(op="abandon", a=0, b=0)]
            if rng.random() < 0.5:
                k = rng.randint(1, 8); seg.append(dict(op="rm", a=k, b=0)); seg.append(dict(op="put", a=k, b=2)); have.add(k)
        cyc.append(seg)
    out.append(dict(tag="cycle", segs=cyc, trace_consts=TRACE_CONSTS, replays=_replays([rng.randint(0, 3)])))
    # the same on a tree that has never been walked completely: a walk given up after two or three keys leaves stamps below
    # ancestors that carry none; one segment per number of one-step walks around the counter period, so that one of them
    # puts the wrap-around right before the final complete walk whatever the counter was at the start
    part = []
    for j in ((2, 3) if tier != "cross" else (2,)):
        for n in range(250, 259):
            seg = []
            have = rng.sample(range(1, 9), rng.randint(5, 8))
            for k in have:
                seg.append(dict(op="put", a=k, b=1))
            seg += [dict(op="next", a=0, b=0)] * j + [dict(op="abandon", a=0, b=0)]
            seg += [dict(op="next", a=0, b=0), dict(op="abandon", a=0, b=0)] * n
            seg.append(dict(op="walk", a=0, b=0))
            seg.append(dict(op="walk", a=0, b=0))
            part.append(seg)
    out.append(dict(tag="cycle-partial", segs=part, trace_consts=TRACE_CONSTS, replays=_replays([rng.randint(0, 3)])))
    return out
