"""qhashtbl description for pipeline.run_container (specs HashTbl.tla / MC_HashTbl.tla / HashTblTrace.tla)."""
import vf

NAME, MODULE, TRACE_MODULE, HARNESS, FIELDS = "hashtbl", "MC_HashTbl", "HashTblTrace", "replay_hashtbl", ("k", "v")
HOMES = {"H1": (1, [0, 0, 0, 0]), "H2": (2, [0, 0, 0, 1]), "H3": (3, [0, 1, 1, 2]), "H5": (1, [0, 0, 0, 0, 0])}


def _remap(segs, table):
    return [[dict(o, v=table.get(o["v"], o["v"])) if o["op"] == "put" else o for o in seg] for seg in segs]


def models(tier):
    ms = []
    names = ["H1", "H3"] if tier == "cross" else ["H1", "H2", "H3"] + (["H5"] if tier == "thorough" else [])
    for hn in names:
        rng, homes = HOMES[hn]
        nk = len(homes)
        keys = set(range(1, nk + 1))
        tc = dict(Range=rng, NKeys=nk, Vals={1, 2, 3, 4, 5, 6, 7})
        # value kinds: 2/5 equal up to an embedded NUL; 3 an integer string, 4 empty; 6 a proper prefix of 1
        for vi, table in enumerate(([{1: 5, 2: 2}, {1: 3, 2: 4}, {1: 1, 2: 6}])):
            if vi == 1 and (hn not in ("H1", "H3") or tier == "cross"):
                continue
            if vi == 2 and not (hn == "H2" or (tier == "cross" and hn == "H1")):
                continue
            ms.append(dict(tag="%s-v%d" % (hn, vi), consts=dict(Range=rng, NKeys=nk, Vals={1, 2}), subst=dict(Home=hn, Keys="KeysN"),
                           invariants=["WellFormed"], properties=["IdealStep"], workers=2,
                           trace_consts=tc, trace_subst=dict(Home="HR", Keys="KeysN"),
                           prelude=(lambda segs, table=table: _remap(segs, table)),
                           replays=[dict(tag="r%d" % rng, args=(lambda s, t, fl, rng=rng, nk=nk, homes=homes:
                                                                [s, t, rng, nk, ",".join(map(str, homes)), fl]))]))
    return ms


def _rand(rng, steps, nkeys):
    seg = []
    for s in range(steps):
        r = rng.random()
        k = rng.randint(1, nkeys)
        if r < 0.45: seg.append(dict(op="put", k=k, v=rng.choice([1, 2, 3, 4, 5, 2, 5, 6, 1, 6, 7])))
        elif r < 0.68: seg.append(dict(op="remove", k=k, v=0))
        elif r < 0.90: seg.append(dict(op="get", k=k, v=0))
        elif r < 0.95: seg.append(dict(op="size", k=0, v=0))
        elif r < 0.997: seg.append(dict(op="walk", k=0, v=0))
        else: seg.append(dict(op="clear", k=0, v=0))
    return seg


def randoms(tier, rng):
    out = []
    plan = [(1, 30, 2, 1500), (2, 40, 2, 1500), (7, 200, 2, 2500), (0, 600, 1, 3000)] if tier == "quick" else \
           [(1, 20, 1, 600), (7, 100, 1, 1000)] if tier == "cross" else \
           [(1, 60, 4, 4000), (2, 80, 4, 4000), (7, 400, 4, 8000), (0, 5000, 2, 20000), (13, 1000, 2, 10000)]
    for (r, nk, nseg, steps) in plan:
        real = r if r else 1000
        out.append(dict(tag="r%d" % r, segs=[_rand(rng, steps, nk) for _ in range(nseg)],
                        trace_consts=dict(Range=real, NKeys=nk, Vals={1, 2, 3, 4, 5, 6, 7}), trace_subst=dict(Home="HR", Keys="KeysN"),
                        replays=[dict(tag="r%d" % r, args=(lambda s, t, fl, r=r, nk=nk: [s, t, r, nk, "-", fl]))]))
    return out
