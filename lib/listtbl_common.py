"""qlisttbl description for pipeline.run_container (specs ListTbl.tla / ListTblTrace.tla): all 16 option sets."""
import itertools
import vf

NAME, MODULE, TRACE_MODULE, HARNESS, FIELDS = "listtbl", "ListTbl", "ListTblTrace", "replay_listtbl", ("k", "v")


def _optsets():
    for u, c, t, f in itertools.product([False, True], repeat=4):
        letters = ("u" if u else "") + ("c" if c else "") + ("t" if t else "") + ("f" if f else "")
        yield (u, c, t, f, letters or "-")


def _replays(letters, profiles):
    return [dict(tag="%s-p%d" % (letters.replace("-", "0"), p),
                 args=(lambda s, t, fl, letters=letters, p=p: [s, t, letters, p, fl, t + ".save"])) for p in profiles]


def models(tier):
    ms = []
    ml = 4 if tier == "thorough" else 3
    for n, (u, c, t, f, letters) in enumerate(_optsets()):
        if tier == "cross" and letters not in ("-", "uctf", "ct"):
            continue
        consts = dict(MaxLen=ml, Vals={1, 2}, Uniq=u, Ci=c, Top=t, Fwd=f)
        tc = dict(consts, MaxLen=1000000, Vals={1, 2, 3, 4})
        def remap(segs, n=n):
            table = [{1: 1, 2: 2}, {1: 3, 2: 4}, {1: 2, 2: 3}, {1: 4, 2: 1}][n % 4]
            return [[dict(o, v=table.get(o["v"], o["v"])) if o["op"] == "put" else o for o in seg] for seg in segs]
        ms.append(dict(tag="opt-%s" % letters.replace("-", "0"), consts=consts, invariants=["UniqueHolds"], properties=["IsSortedStable"],
                       workers=2, trace_consts=tc, prelude=remap,
                       replays=_replays(letters, [n % 3] if tier == "quick" else [n % 3, (n + 1) % 3])))
    return ms


def _rand(rng, steps):
    seg = []
    n = 0
    for s in range(steps):
        r = rng.random()
        k = rng.randint(1, 4)
        if r < (0.45 if n < 40 else 0.2): seg.append(dict(op="put", k=k, v=rng.randint(1, 4))); n += 1
        elif r < 0.55: seg.append(dict(op="get", k=k, v=0))
        elif r < 0.62: seg.append(dict(op="getmulti", k=k, v=0))
        elif r < 0.70: seg.append(dict(op=rng.choice(["remove", "rmwalk"]), k=k, v=0)); n = max(0, n - n // 4)
        elif r < 0.80: seg.append(dict(op=rng.choice(["walk", "size"]), k=0, v=0))
        elif r < 0.86: seg.append(dict(op="walkname", k=k, v=0))
        elif r < 0.92: seg.append(dict(op="sort", k=0, v=0))
        elif r < 0.99: seg.append(dict(op="saveload", k=0, v=0))
        else: seg.append(dict(op="clear", k=0, v=0)); n = 0
    return seg


def randoms(tier, rng):
    out = []
    sets = list(_optsets())
    picks = rng.sample(sets, 4) if tier == "quick" else rng.sample(sets, 2) if tier == "cross" else sets
    for (u, c, t, f, letters) in picks:
        tc = dict(MaxLen=1000000, Vals={1, 2, 3, 4}, Uniq=u, Ci=c, Top=t, Fwd=f)
        out.append(dict(tag="opt-%s" % letters.replace("-", "0"), segs=[_rand(rng, 600 if tier == "quick" else 1500) for _ in range(2)],
                        trace_consts=tc, replays=_replays(letters, [rng.randint(0, 2)])))
    return out
