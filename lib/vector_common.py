import os, random, json
from concurrent.futures import ThreadPoolExecutor
import vf, pipeline

FIELDS = ("i", "v")


def fmt(op):
    return "%s %d %d" % (op["op"], op["i"], op["v"])


def configs(tier):
    pol = ["exact", "linear", "double"]
    caps = [0, 1, 2, 3]
    maxlen = 4 if tier == "quick" else 5
    return [(p, c, maxlen) for p in pol for c in caps]


def rand_script(rng, nseg, steps, maxn):
    idx = ["addat", "getat", "setat", "popat", "removeat"]
    val = ["addfirst", "addlast", "setfirst", "setlast"]
    noarg = ["getfirst", "getlast", "popfirst", "poplast", "removefirst", "removelast", "reverse", "toarray", "walk", "size"]
    segs = []
    for _ in range(nseg):
        n = 0; seg = []
        grow = True
        for s in range(steps):
            r = rng.random()
            if n >= maxn: grow = False
            if n <= 2: grow = True
            if r < 0.03:
                m = rng.choice([0, 1, n, n + 1, max(0, n - 1), n // 2, n + 7]); seg.append(dict(op="resize", i=m, v=0)); n = min(n, m); continue
            if r < 0.035:
                seg.append(dict(op="clear", i=0, v=0)); n = 0; continue
            pick = rng.random()
            if pick < (0.55 if grow else 0.25):
                op = rng.choice(["addat", "addfirst", "addlast"])
            elif pick < 0.8:
                op = rng.choice(["popat", "removeat", "popfirst", "poplast", "removefirst", "removelast"]) if not grow or rng.random() < 0.5 else rng.choice(["getat", "setat"])
            else:
                op = rng.choice(idx + val + noarg)
            i = rng.randint(-n - 2, n + 2) if rng.random() < 0.5 else rng.choice([0, -1, n, n - 1, -n, -n - 1, n + 1, 1])
            v = rng.randint(1, 4)
            if op in idx:
                seg.append(dict(op=op, i=i, v=v if op in ("addat", "setat") else 0))
                idxn = i + n if i < 0 else i
                if op == "addat" and 0 <= idxn <= n: n += 1
                if op in ("popat", "removeat") and 0 <= idxn < n: n -= 1
            elif op in val:
                seg.append(dict(op=op, i=0, v=v))
                if op.startswith("add"): n += 1
            else:
                seg.append(dict(op=op, i=0, v=0))
                if op.startswith("pop") or op.startswith("remove"):
                    if n > 0: n -= 1
        segs.append(seg)
    return segs


def vector_pipeline(chk, tier, seed, owned, flagsets, modes, objsizes=None, do_random=True):
    """Model runs (all policies x initial capacities), tours replayed in the given flag sets / build modes."""
    rng = random.Random(seed)
    pipeline.SCRIPT_FIELDS["replay_vector"] = FIELDS
    wd = pipeline.workdir("vector")
    objsizes = objsizes or ([1, 3, 8, 64] if tier == "thorough" else [1, 8, 64])
    cfgs = configs(tier)
    for mode in modes:
        vf.build("replay_vector", mode=mode, wraps=pipeline.default_wraps(mode))
    ownedc = vf.Raw(vf.tla_val(set(owned)))

    def one(arg):
        n, (pol, cap, maxlen) = arg
        consts = dict(MaxLen=maxlen, Vals={1, 2}, Policy=pol, InitCap=cap)
        tag = "Vector-%s-%d" % (pol, cap)
        r, edges = pipeline.model_run(chk, tag, "Vector", consts, workers=2,
                                      invariants=["TypeOK", "CapOK"], properties=["RefusalsHarmless", "GrowthPreserves"])
        if not r.ok or not edges:
            return
        segs, st = vf.tour(edges, maxseg=400)
        chk.add_cases(0, distinct_n=st["edges"])
        chk.parts.setdefault("tours", {})[tag] = st
        if st["uncovered"]:
            chk.infra.append("tour left %d edges uncovered" % st["uncovered"])
        script = os.path.join(wd, "tour-%s-%d-%s.script" % (pol, cap, chk.pid))
        pipeline.write_script(script, segs, fmt)
        if n == 0:
            chk.sample(dict(model="Vector %s cap=%d" % (pol, cap), tour_segment=[fmt(o) for o in segs[-1][:25]]))
        tconst = dict(consts); tconst["Owned"] = ownedc
        for fi, flags in enumerate(flagsets):
            for mode in modes:
                # rotate element size / value profile over the configurations so each run stays short
                obj = objsizes[(n + fi) % len(objsizes)]
                prof = (n + fi) % 4
                def args(script_, trace_, obj=obj, pol=pol, cap=cap, prof=prof, flags=flags):
                    return [script_, trace_, obj, cap, pol, prof, flags or "-"]
                v = pipeline.Variant("%s-o%d-p%d-%s" % (mode, obj, prof, flags or "n"), "replay_vector", args, "VectorTrace",
                                     tconst, mode=mode, owned=owned)
                pipeline.replay_and_validate(chk, v, script, "%s-tour-%s-%d" % (chk.pid, pol, cap))

    with ThreadPoolExecutor(6) as ex:
        list(ex.map(one, enumerate(cfgs)))
    if do_random:
        nseg, steps, maxn = (6, 1500, 300) if tier == "quick" else (24, 4000, 300)
        jobs = []
        for pol in ["exact", "linear", "double"]:
            cap = rng.choice([0, 1, 5, 16])
            segs = rand_script(rng, nseg, steps, maxn)
            script = os.path.join(wd, "rand-%s-%s.script" % (pol, chk.pid))
            pipeline.write_script(script, segs, fmt)
            consts = dict(MaxLen=100000, Vals={1, 2, 3, 4}, Policy=pol, InitCap=cap, Owned=ownedc)
            for fi, flags in enumerate(flagsets):
                for mode in modes:
                    obj = rng.choice(objsizes); prof = rng.randint(0, 3)
                    def args(script_, trace_, obj=obj, pol=pol, cap=cap, prof=prof, flags=flags):
                        return [script_, trace_, obj, cap, pol, prof, flags or "-"]
                    v = pipeline.Variant("%s-o%d-p%d-%s" % (mode, obj, prof, flags or "n"), "replay_vector", args,
                                         "VectorTrace", consts, mode=mode, owned=owned)
                    jobs.append((v, script, "%s-rand-%s" % (chk.pid, pol)))
        def rj(j):
            res = pipeline.replay_and_validate(chk, j[0], j[1], j[2])
            chk.add_cases(0, distinct_n=res["events"] // 2)
        with ThreadPoolExecutor(6) as ex:
            list(ex.map(rj, jobs))
