"""qvector description for pipeline.run_container (specs Vector.tla / VectorTrace.tla)."""
import vf

NAME, MODULE, TRACE_MODULE, HARNESS, FIELDS = "vector", "Vector", "VectorTrace", "replay_vector", ("i", "v")


def _replays(pol, cap, combos):
    return [dict(tag="o%d-p%d" % (o, p), args=(lambda s, t, fl, o=o, p=p, pol=pol, cap=cap: [s, t, o, cap, pol, p, fl])) for (o, p) in combos]


def models(tier):
    objs = [1, 3, 8, 64, 65, 200] if tier == "thorough" else [1, 8, 64, 200]      # element sizes on both sides of 64 bytes
    if tier == "cross":
        cfgs = [("exact", 0, 3), ("linear", 2, 3), ("double", 1, 3)]
    else:
        ml = 4 if tier == "quick" else 5
        cfgs = [(p, c, ml) for p in ("exact", "linear", "double") for c in (0, 1, 2, 3)]
    ms = []
    for n, (pol, cap, ml) in enumerate(cfgs):
        consts = dict(MaxLen=ml, Vals={1, 2}, Policy=pol, InitCap=cap)
        combos = [(objs[n % len(objs)], n % 5)] + ([(objs[(n + 1) % len(objs)], (n + 1) % 4)] if tier == "thorough" else [])
        ms.append(dict(tag="%s-%d" % (pol, cap), consts=consts, invariants=["TypeOK", "CapOK"],
                       properties=["RefusalsHarmless", "GrowthPreserves"], workers=2, replays=_replays(pol, cap, combos)))
    return ms


def rand_script(rng, nseg, steps, maxn):
    idx = ["addat", "getat", "setat", "popat", "removeat"]
    val = ["addfirst", "addlast", "setfirst", "setlast"]
    noarg = ["getfirst", "getlast", "popfirst", "poplast", "removefirst", "removelast", "reverse", "toarray", "walk", "size"]
    segs = []
    for _ in range(nseg):
        n = 0; seg = []
        grow = True
        for s in range(steps):
            r = rng.random()
            if n >= maxn: grow = False
            if n <= 2: grow = True
            if r < 0.03:
                m = rng.choice([0, 1, n, n + 1, max(0, n - 1), n // 2, n + 7]); seg.append(dict(op="resize", i=m, v=0)); n = min(n, m); continue
            if r < 0.035:
                seg.append(dict(op="clear", i=0, v=0)); n = 0; continue
            pick = rng.random()
            if pick < (0.55 if grow else 0.25):
                op = rng.choice(["addat", "addfirst", "addlast"])
            elif pick < 0.8:
                op = rng.choice(["popat", "removeat", "popfirst", "poplast", "removefirst", "removelast"]) if not grow or rng.random() < 0.5 else rng.choice(["getat", "setat"])
            else:
                op = rng.choice(idx + val + noarg)
            i = rng.randint(-n - 2, n + 2) if rng.random() < 0.5 else rng.choice([0, -1, n, n - 1, -n, -n - 1, n + 1, 1])
            v = rng.randint(1, 4)
            if op in idx:
                seg.append(dict(op=op, i=i, v=v if op in ("addat", "setat") else 0))
                idxn = i + n if i < 0 else i
                if op == "addat" and 0 <= idxn <= n: n += 1
                if op in ("popat", "removeat") and 0 <= idxn < n: n -= 1
            elif op in val:
                seg.append(dict(op=op, i=0, v=v))
                if op.startswith("add"): n += 1
            else:
                seg.append(dict(op=op, i=0, v=0))
                if op.startswith("pop") or op.startswith("remove"):
                    if n > 0: n -= 1
        segs.append(seg)
    return segs


def randoms(tier, rng):
    nseg, steps, maxn = (6, 1500, 300) if tier == "quick" else (3, 600, 60) if tier == "cross" else (24, 4000, 300)
    out = []
    for pol in ["exact", "linear", "double"]:
        cap = rng.choice([0, 1, 5, 16])
        out.append(dict(tag=pol, segs=rand_script(rng, nseg, steps, maxn),
                        trace_consts=dict(MaxLen=100000, Vals={1, 2, 3, 4}, Policy=pol, InitCap=cap),
                        replays=_replays(pol, cap, [(rng.choice([1, 3, 8, 64, 65, 129, 200]), rng.randint(0, 4))])))
    return out
