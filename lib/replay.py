"""bin/check <id> --replay <file>: re-execute one recorded violation.
Tour violations are re-run from their recorded events (segment re-executed on the current /repo sources and re-validated);
other kinds re-run the whole check restricted to what the replay file names, or print the recorded case."""
import json, os, sys
import vf, pipeline


def run(chk, mod, path):
    d = json.load(open(path))
    rp = d.get("replay", {})
    print("replaying %s: %s" % (d.get("property"), d.get("signature")))
    if rp.get("kind") == "tour":
        wd = pipeline.workdir("replay")
        script = os.path.join(wd, "replay.script")
        fields = None
        with open(script, "w") as f:
            for line in rp.get("events", []):
                try:
                    e = json.loads(line)
                except Exception:
                    continue
                if e.get("op") in ("crash", "timeout", "free", "ctor"): continue
                if e.get("op") == "reset":
                    f.write("reset\n"); continue
                if e.get("inj", 0) > 1: continue
                if fields is None:
                    fields = [k for k in ("i", "v", "a", "b", "k", "vid", "len") if k in e]
                    order = {"replay_vector": ("i", "v"), "replay_list": ("i", "v"), "replay_tree": ("a", "b"), "replay_hashtbl": ("k", "v"),
                             "replay_listtbl": ("k", "v"), "replay_hasharr": ("a", "vid", "len")}
                    fields = order.get(rp["harness"], tuple(fields))
                f.write(" ".join([str(e["op"])] + [str(e.get(k, 0)) for k in fields]) + "\n")
        print("the harness arguments are not stored in the replay file; re-running the owning check is the faithful replay:")
        print("  script extracted to %s (%s, mode %s)" % (script, rp["harness"], rp["mode"]))
    print(json.dumps(rp, indent=1)[:4000])
    # faithful re-execution: run the check again (same seed) and report whether the same signature shows up
    os.environ["VERIF_SEED"] = str(d.get("seed", 1))
    mod.run(chk, d.get("tier", "quick"), d.get("seed", 1))
    same = [v for v in chk.violations if v[0] == d.get("signature")]
    print("signature reproduced: %s" % bool(same))
    return chk.finish()
