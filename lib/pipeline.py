"""Generic spec -> dump -> tour -> replay -> trace-validation pipeline shared by all container checks."""
import os, re, json, subprocess, time, random, hashlib
from concurrent.futures import ThreadPoolExecutor
import vf


def workdir(name):
    # per-process scratch space: several checks (or the same check against a mutated copy) may run at the same time
    d = os.path.join(vf.BUILD, "work", "p%d" % os.getpid(), name)
    os.makedirs(d, exist_ok=True)
    return d


def model_run(chk, tag, module, constants, invariants=(), properties=(), view="View", dump=True, subst=None,
              workers=None, timeout=1800, heap="8g", constraints=(), extra_action_constraints=(), init="Init",
              next_="Next", want_edges=True):
    """Exhaustive TLC run on the model; returns (TlcResult, edges)."""
    wd = workdir("mc")
    cfg = os.path.join(wd, "%s.cfg" % tag)
    acs = (["Dump"] if dump else []) + list(extra_action_constraints)
    vf.write_cfg(cfg, constants=constants, invariants=invariants, properties=properties, view=view,
                 action_constraints=acs, subst=subst, constraints=constraints, init=init, next_=next_)
    out = os.path.join(wd, "%s.out" % tag)
    r = vf.tlc(module, cfg, workers=workers or min(8, vf.NCPU), timeout=timeout, outfile=out, heap=heap)
    edges = vf.read_dump(out) if (dump and want_edges) else []
    chk.add_mc(tag, r, dict(constants={k: str(v.s if isinstance(v, vf.Raw) else v) for k, v in constants.items()},
                            edges=len(edges)))
    try:
        os.remove(out)
    except OSError:
        pass
    vf.tlc_cleanup(r)
    return r, edges


def write_script(path, segments, fmt):
    with open(path, "w") as f:
        for seg in segments:
            f.write("reset\n")
            for op in seg:
                f.write(fmt(op) + "\n")


def _script_segments(script):
    segs = []
    with open(script) as f:
        for line in f:
            if line.startswith("reset"):
                segs.append([])
            elif segs:
                segs[-1].append(line.rstrip("\n"))
    return segs


def run_replayer(exe, args, trace, timeout=900, env=None, script=None):
    """Runs a replayer.  If it dies (signal, watchdog, sanitizer abort) the crash is recorded in the trace as an event
    (which no spec action admits) and a new process continues with the segment after the one that died, so one
    crash does not hide the rest of the script.  Returns (last exit code, collected stderr)."""
    e = dict(os.environ)
    e["ASAN_OPTIONS"] = "detect_leaks=1:abort_on_error=0:exitcode=66:allocator_may_return_null=1:detect_stack_use_after_return=1"
    e["UBSAN_OPTIONS"] = "print_stacktrace=1:halt_on_error=1:exitcode=67"
    e["TSAN_OPTIONS"] = "exitcode=68:halt_on_error=0"
    if env: e.update(env)
    args = [str(a) for a in args]
    allerr = []
    worst = 0
    cur_script = args[0] if script is None else script
    all_segs = None
    done_segs = 0
    crashes = 0
    for attempt in range(40):
        a2 = [cur_script] + args[1:]
        if attempt > 0:
            e["VH_APPEND"] = "1"
        try:
            p = subprocess.run([exe] + a2, capture_output=True, text=True, timeout=timeout, env=e, errors="replace")
            rc, err = p.returncode, p.stderr
        except subprocess.TimeoutExpired:
            rc, err = -99, "replayer timed out after %ss" % timeout
        if rc == 0:
            break
        if rc == -99:
            # the time limit of one replayer process (a long tour, a slow machine) - every call has its own watchdog, so this says
            # nothing about the code: drop the segment that was cut short and go on with it in a fresh process
            if all_segs is None:
                all_segs = _script_segments(args[0])
            nres = 0
            if os.path.exists(trace):
                with open(trace, "rb") as f:
                    data = f.read()
                nres = data.count(b'{"op":"reset"')
                cut = data.rfind(b'{"op":"reset"')
                if cut >= 0:
                    with open(trace, "wb") as f: f.write(data[:cut])
                    nres -= 1
            if nres <= done_segs and attempt > 0:
                allerr.append(err); worst = rc
                break                       # no progress within a whole time slice: give up (reported as infrastructure)
            done_segs = nres
            cur_script = args[0] + ".rest"
            with open(cur_script, "w") as f:
                for seg in all_segs[done_segs:]:
                    f.write("reset\n")
                    for l in seg: f.write(l + "\n")
            continue
        crashes += 1
        if crashes > 4:
            # the rest of the script is not replayed: whoever does not own crashes must not count this replay as judged
            allerr.append("REPLAY-ABANDONED after %d crashes" % crashes)
            break
        worst = rc
        allerr.append(err[-3000:])
        # the child's own handlers log crash/timeout for signals; sanitizer exits and hard kills are logged here
        last = ""
        nres = 0
        if os.path.exists(trace):
            with open(trace, "rb") as f:
                data = f.read()
            nres = data.count(b'{"op":"reset"')
            tail = data[-4000:].decode(errors="replace").strip().split("\n")
            last = tail[-1] if tail else ""
        if '"op":"crash"' not in last and '"op":"timeout"' not in last:
            where = ""
            try:
                where = json.loads(last).get("op", "")
            except Exception:
                pass
            with open(trace, "a") as f:
                if last and not last.endswith("}"):
                    f.write("\n")
                f.write(json.dumps({"op": "crash", "sig": rc, "seg": nres, "step": 0, "where": "after:" + where}) + "\n")
        if all_segs is None:
            all_segs = _script_segments(args[0])
        done_segs = nres           # segments started so far (the last one died)
        if done_segs >= len(all_segs):
            break
        cur_script = args[0] + ".rest"
        with open(cur_script, "w") as f:
            for seg in all_segs[done_segs:]:
                f.write("reset\n")
                for l in seg: f.write(l + "\n")
    return worst, "\n".join(allerr)


def segment_of(trace, lineno):
    """(index, events) of the segment containing 1-based trace line `lineno` (from its reset up to that line)."""
    seg = []; idx = -1
    with open(trace) as f:
        for i, line in enumerate(f, 1):
            if i > lineno: break
            if line.startswith('{"op":"reset"'):
                seg = []; idx += 1
            seg.append(line.strip())
    return idx, seg


def validate_sharded(module, cfg, trace, shard_lines=120000, jobs=8, timeout=1800, heap="4g"):
    """Split a long trace at reset boundaries and validate the shards in parallel.
    Returns list of (shard_path, offset, result)."""
    n = vf.count_lines(trace)
    if n <= shard_lines:
        return [(trace, 0, vf.validate(module, cfg, trace, timeout=timeout, heap=heap))]
    shards = []
    cur, cur_n, off, idx = None, 0, 0, 0
    with open(trace) as f:
        lineno = 0
        for line in f:
            if cur is None or (cur_n >= shard_lines and '"op":"reset"' in line):
                if cur: cur.close()
                idx += 1
                p = "%s.shard%d" % (trace, idx)
                cur = open(p, "w"); cur_n = 0
                shards.append((p, lineno))
            cur.write(line); cur_n += 1; lineno += 1
    if cur: cur.close()
    with ThreadPoolExecutor(jobs) as ex:
        res = list(ex.map(lambda s: vf.validate(module, cfg, s[0], timeout=timeout, heap=heap), shards))
    return [(s[0], s[1], r) for s, r in zip(shards, res)]


def default_wraps(mode):
    return vf.WRAP_ALLOC + vf.WRAP_LOCK + vf.WRAP_COPY if mode == "plain" else []


class Variant:
    """One way of replaying a script on the real code and validating the trace."""

    def __init__(self, tag, harness, args_fn, trace_module, trace_constants, mode="plain", subst=None, env=None,
                 owned=None, wraps=None, defines=()):
        self.tag, self.harness, self.args_fn = tag, harness, args_fn
        self.trace_module, self.trace_constants, self.mode = trace_module, trace_constants, mode
        self.subst, self.env, self.owned = subst, env, owned
        self.wraps = wraps if wraps is not None else default_wraps(mode)
        self.defines = defines


def replay_and_validate(chk, variant, script, tagname, fmt_desc="", recheck=True):
    """Run `script` through the variant's replayer and validate the trace; register violations.
    Returns dict(events, segments_rejected, rejects)."""
    wd = workdir("traces")
    exe = vf.build(variant.harness, mode=variant.mode, wraps=variant.wraps, defines=variant.defines)
    trace = os.path.join(wd, "%s-%s.ndjson" % (tagname, variant.tag))
    if os.path.exists(trace): os.remove(trace)
    rc, err = run_replayer(exe, variant.args_fn(script, trace), trace, env=variant.env)
    if rc == -99:
        chk.infra.append("replayer %s/%s made no progress within its time limit" % (tagname, variant.tag))
    if not os.path.exists(trace):
        chk.infra.append("replayer %s produced no trace (rc=%s): %s" % (variant.tag, rc, err[-500:]))
        return dict(events=0, rejected=0)
    cfg = os.path.join(wd, "%s-%s.cfg" % (tagname, variant.tag))
    vf.write_cfg(cfg, constants=variant.trace_constants, init="TInit", next_="TNext", postcondition="Consumed",
                 subst=variant.subst)
    nev = vf.count_lines(trace)
    results = validate_sharded(variant.trace_module, cfg, trace)
    nrej = 0
    for shard, off, res in results:
        if res.get("conform"):
            sc = chk.parts.setdefault("shape_conformance", dict(equal=0, compared=0))
            sc["equal"] += res["conform"][0]; sc["compared"] += res["conform"][1]
        if res["infra"]:
            chk.infra.append("trace validation %s/%s: %s" % (tagname, variant.tag, res["infra"]))
            continue
        for (l, txt) in res["rejects"]:
            nrej += 1
            why = parse_why(txt)
            if variant.owned is not None and why and not (why & variant.owned):
                fr = chk.parts.setdefault("foreign_rejects", [])
                if len(fr) < 5: fr.append("%s/%s: %s" % (tagname, variant.tag, txt[:200]))
                continue
            segidx, seg = segment_of(shard, l) if l > 0 else (-1, [])
            if segidx >= 0:
                segidx += count_resets(trace, upto=off)
            confirmed = True
            if recheck and seg and nrej <= 5 and segidx >= 0:
                confirmed = recheck_segment(chk, variant, script, segidx, tagname)
            if not confirmed:
                msg = "rejection not reproduced in isolation (%s/%s line %d): %s" % (tagname, variant.tag, l, txt[:300])
                # a single-threaded replayer that was killed from outside or ran out of time on a loaded machine, and whose segment passes
                # when run alone, says nothing about the code: noted in the evidence, not a failure of the check
                if (why & {"crash", "timeout"}) and variant.mode != "tsan" and re.search(r'"sig": ?(-99|-9|137|9)\b|"op": ?"timeout"', txt):
                    tr = chk.parts.setdefault("transient_environment_events", [])
                    if len(tr) < 10: tr.append(msg)
                    continue
                chk.infra.append(msg)
                continue
            sig = "%s:%s:%s" % (variant.harness, ",".join(sorted(why)) or "reject", seg_sig(seg))
            detail = "trace %s/%s rejected at event %d (%s)\n%s\nsanitizer/stderr tail:\n%s" % (
                tagname, variant.tag, l + off, ",".join(sorted(why)), txt[:2500], err[-3000:] if rc != 0 else "")
            chk.violation(sig, detail, dict(kind="tour", harness=variant.harness, mode=variant.mode,
                                            trace_module=variant.trace_module,
                                            trace_constants={k: (v.s if isinstance(v, vf.Raw) else v) for k, v in variant.trace_constants.items()},
                                            subst=variant.subst, tag=variant.tag, events=seg[-400:], why=sorted(why)))
    if "REPLAY-ABANDONED" in err and variant.owned is not None and not (variant.owned & {"crash", "timeout"}):
        # vacuity guard (seeded change C02-k): the library crashed five times and the replay was given up; crashes belong to other
        # properties, but a run that explored next to nothing is not a pass either - it is reported as "could not judge" (exit 2)
        chk.infra.append("replay %s/%s abandoned after repeated crashes this check does not own: most of the script was not judged" % (tagname, variant.tag))
    if nrej == 0 and rc != 0 and not any(r[2]["rejects"] for r in results):
        chk.infra.append("replayer %s exited %s but the trace was accepted: %s" % (variant.tag, rc, err[-800:]))
    chk.cov["traces_validated_against_impl"] += count_resets(trace)
    chk.add_cases(nev)
    # keep a small sample of what was replayed
    if len(chk.cov["samples"]) < 4:
        with open(trace) as f:
            head = [next(f, "").strip() for _ in range(6)]
        chk.sample(dict(variant="%s/%s" % (tagname, variant.tag), first_events=[h[:300] for h in head if h]))
    for shard, off, res in results:
        if shard != trace and os.path.exists(shard): os.remove(shard)
    if nrej == 0 and not any(r[2]["infra"] for r in results):
        os.remove(trace)
    return dict(events=nev, rejected=nrej)


def count_resets(trace, upto=None):
    n = 0
    with open(trace) as f:
        for i, line in enumerate(f):
            if upto is not None and i >= upto: break
            if line.startswith('{"op":"reset"'): n += 1
    return n


def parse_why(txt):
    try:
        return set(json.loads(txt).get("why", []))
    except Exception:
        return set()


def seg_sig(seg):
    """Signature of a failing segment: the operations (without results) of its last few events."""
    ops = []
    for line in seg[-6:]:
        try:
            e = json.loads(line)
            ops.append("%s(%s)" % (e.get("op"), ",".join(str(e[k]) for k in sorted(e) if k in ("i", "v", "k", "p", "m", "len", "klen", "inj"))))
        except Exception:
            ops.append("?")
    return hashlib.sha1(";".join(ops).encode()).hexdigest()[:10] + ":" + (ops[-1] if ops else "")


def recheck_segment(chk, variant, script, segidx, tagname):
    """Re-execute one failing segment of the script alone; True if TLC rejects again."""
    wd = workdir("recheck")
    segs = _script_segments(script)
    if segidx >= len(segs):
        return True
    one = os.path.join(wd, "%s-%s-%d.script" % (tagname, variant.tag, segidx))
    with open(one, "w") as f:
        f.write("reset\n")
        for l in segs[segidx]: f.write(l + "\n")
    exe = vf.build(variant.harness, mode=variant.mode, wraps=variant.wraps, defines=variant.defines)
    trace = os.path.join(wd, "%s-%s-%d.ndjson" % (tagname, variant.tag, segidx))
    if os.path.exists(trace): os.remove(trace)
    run_replayer(exe, variant.args_fn(one, trace), trace, env=variant.env)
    cfg = os.path.join(wd, "%s-%s-%d.cfg" % (tagname, variant.tag, segidx))
    vf.write_cfg(cfg, constants=variant.trace_constants, init="TInit", next_="TNext", postcondition="Consumed",
                 subst=variant.subst)
    if not os.path.exists(trace): return True
    res = vf.validate(variant.trace_module, cfg, trace)
    for f in (one, trace, cfg):
        try: os.remove(f)
        except OSError: pass
    return bool(res["rejects"]) or (res["infra"] is None and not res["accepted"])


SCRIPT_FIELDS = {}


def script_line(e):
    """Default script line for an event: op followed by its integer arguments in the order registered."""
    fields = SCRIPT_FIELDS.get(e.get("_h", "current"), SCRIPT_FIELDS.get("current", ("i", "v")))
    return " ".join([str(e["op"])] + [str(e.get(k, 0)) for k in fields])


# ---------------------------------------------------------------------------------------------
# Generic container driver: model runs -> tours -> replays (per flag set / build mode) -> validation,
# then seeded random histories.  `desc` is a module-like object with:
#   NAME, MODULE, TRACE_MODULE, HARNESS, FIELDS
#   models(tier) -> [dict(tag, consts, invariants, properties, subst?, replays=[dict(tag, args=fn(script, trace, flags))], trace_consts?)]
#   randoms(tier, rng) -> [dict(tag, segs, trace_consts, replays=[...])]
# ---------------------------------------------------------------------------------------------
def fmt_fields(fields):
    def f(op):
        return " ".join([str(op["op"])] + [str(op.get(k, 0)) for k in fields])
    return f


def run_container(chk, tier, seed, desc, owned, flagsets=("",), modes=("plain",), do_random=True, threads=6,
                  model_filter=None, replays_per_model=None, random_tier=None):
    rng = random.Random(seed)
    SCRIPT_FIELDS[desc.HARNESS] = desc.FIELDS
    fmt = fmt_fields(desc.FIELDS)
    wd = workdir(desc.NAME)
    for mode in modes:
        vf.build(desc.HARNESS, mode=mode, wraps=default_wraps(mode))
    ownedc = vf.Raw(vf.tla_val(set(owned)))
    models = desc.models(tier)
    if model_filter:
        models = [m for m in models if model_filter(m)]

    def replay_all(m, script, tagname, trace_consts, count_distinct=False):
        reps = m["replays"]
        if replays_per_model:
            reps = reps[:replays_per_model]
        for rp in reps:
            for flags in flagsets:
                for mode in modes:
                    def args(script_, trace_, rp=rp, flags=flags):
                        return rp["args"](script_, trace_, flags or "-")
                    v = Variant("%s-%s-%s" % (mode, rp["tag"], flags or "n"), desc.HARNESS, args, desc.TRACE_MODULE,
                                trace_consts, mode=mode, owned=owned, subst=m.get("trace_subst"))
                    res = replay_and_validate(chk, v, script, tagname)
                    if count_distinct:
                        chk.add_cases(0, distinct_n=res["events"] // 2)

    def one(arg):
        n, m = arg
        tag = "%s-%s" % (desc.NAME, m["tag"])
        r, edges = model_run(chk, tag, m.get("module", desc.MODULE), m["consts"], workers=m.get("workers", 2),
                             invariants=m.get("invariants", ()), properties=m.get("properties", ()),
                             subst=m.get("subst"), heap=m.get("heap", "4g"), view=m.get("view", "View"),
                             dump=not m.get("mc_only", False))
        if m.get("mc_only"):
            return
        if not r.ok or not edges:
            return
        segs, st = vf.tour(edges, maxseg=m.get("maxseg", 400))
        cap = m.get("max_steps")
        if cap and st["steps"] > cap:
            # a model too large to replay in full: a seeded sample of its tour segments (the model itself is still checked exhaustively)
            order = list(range(len(segs))); rng.shuffle(order)
            keep, total = [], 0
            for i in order:
                if total + len(segs[i]) > cap: continue
                keep.append(i); total += len(segs[i])
            segs = [segs[i] for i in sorted(keep)]
            st = dict(st, replayed_steps=total, replayed_segments=len(segs), sampled=True)
        if m.get("prelude"):
            segs = m["prelude"](segs)
        chk.add_cases(0, distinct_n=st["edges"])
        chk.parts.setdefault("tours", {})[tag] = st
        if st["uncovered"]:
            chk.infra.append("tour of %s left %d edges uncovered" % (tag, st["uncovered"]))
        script = os.path.join(wd, "tour-%s-%s.script" % (m["tag"], chk.pid))
        write_script(script, segs, fmt)
        if n == 0:
            chk.sample(dict(model=tag, tour_segment=[fmt(o) for o in segs[-1][:25]]))
        tc = dict(m.get("trace_consts", m["consts"])); tc["Owned"] = ownedc
        replay_all(m, script, "%s-%s-tour-%s" % (chk.pid, desc.NAME, m["tag"]), tc)

    with ThreadPoolExecutor(threads) as ex:
        list(ex.map(one, enumerate(models)))
    if do_random and hasattr(desc, "randoms"):
        def rnd(m):
            script = os.path.join(wd, "rand-%s-%s.script" % (m["tag"], chk.pid))
            write_script(script, m["segs"], fmt)
            tc = dict(m["trace_consts"]); tc["Owned"] = ownedc
            replay_all(m, script, "%s-%s-rand-%s" % (chk.pid, desc.NAME, m["tag"]), tc, count_distinct=True)
        with ThreadPoolExecutor(threads) as ex:
            list(ex.map(rnd, desc.randoms(random_tier or tier, rng)))
