"""Cross-cutting properties (C11, C12, C14, C15): the container tours and random histories re-run in other modes
(thread-safe constructors, allocation-failure injection, sanitizer builds), judged by the same trace specifications."""
from concurrent.futures import ThreadPoolExecutor
import pipeline
import vector_common, list_common, tree_common, hashtbl_common, hasharr_common, listtbl_common

ALL = [vector_common, list_common, tree_common, hashtbl_common, hasharr_common, listtbl_common]
LOCKABLE = [vector_common, list_common, tree_common, hashtbl_common, listtbl_common]


def run_cross(chk, tier, seed, owned, flagsets, modes, containers=ALL, do_random=True):
    sub = "cross" if tier == "quick" else "quick"

    def one(desc):
        # with failure injection every allocating call is repeated once per allocation: keep the random histories small
        inject = any(("a" in f or "f" in f) for f in flagsets)
        pipeline.run_container(chk, sub, seed, desc, owned=owned, flagsets=flagsets, modes=modes, do_random=do_random, threads=4,
                               random_tier="cross" if inject else None)

    with ThreadPoolExecutor(3) as ex:
        list(ex.map(one, containers))
    chk.cov["exhaustive"] = not chk.infra
