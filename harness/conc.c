/* Concurrency harness for C13.
 *   conc sched  <kind> <program-file> <schedules-file> <out.ndjson>    deterministic replay of TLC schedules
 *   conc stress <kind> <threads> <ops/thread/round> <rounds> <seed> <out.ndjson>   free-running rounds
 * kind: vector | list | queue | stack | hashtbl | treetbl | listtbl | listtblu (unique option)   (containers created with their thread-safe option)
 * program-file: one line per thread: op a b ; op a b ; ...
 * schedules-file: one line per schedule: thread ids (1-based) separated by blanks; each id lets that thread run up
 *   to its next scheduling point (call boundary, before an outermost lock acquisition, after an outermost release).
 * Output: one history per line for LinCheck.tla: {"kind","init","ops":[{t,op,a,b,inv,res,out,outs}],"final"}. */
#include "qlibc.h"
#include "vh.h"
#include <stdlib.h>
#include <string.h>
#include <errno.h>
#include <pthread.h>
#include <semaphore.h>
#include <unistd.h>
#include "qinternal.h"

#define MAXT 8
#define MAXOPS 64
typedef struct { char op[12]; int a, b; long inv, res; int out; int nouts; int outs[64][2]; } oprec;
static oprec prog[MAXT][MAXOPS]; static int nops[MAXT]; static int NT;
enum { K_VECTOR, K_LIST, K_HASHTBL, K_TREETBL, K_LISTTBL, K_LISTTBLU, K_QUEUE, K_STACK };
#define ISSEQ (K == K_VECTOR || K == K_LIST || K == K_QUEUE || K == K_STACK)
static int K; static const char *kindname;
static qvector_t *V; static qlist_t *L; static qhashtbl_t *HT; static qtreetbl_t *TT; static qlisttbl_t *LT; static qqueue_t *QU; static qstack_t *ST;

static int FL;          /* element flavour of the current queue/stack history: 0 raw int, 1 int64 (pushint), 2 string (pushstr) */
static void mk(void) {
    V = NULL; L = NULL; HT = NULL; TT = NULL; LT = NULL; QU = NULL; ST = NULL;
    /* queue and stack have typed wrappers of their own (pushint/popint/getint, pushstr/popstr/getstr): one flavour per history */
    static int nth_history; FL = (nth_history++) % 3;
    if (K == K_QUEUE) { QU = qqueue(QQUEUE_THREADSAFE); return; }
    if (K == K_STACK) { ST = qstack(QSTACK_THREADSAFE); return; }
    if (K == K_VECTOR) V = qvector(0, sizeof(int), QVECTOR_THREADSAFE);
    else if (K == K_LIST) L = qlist(QLIST_THREADSAFE);
    else if (K == K_HASHTBL) HT = qhashtbl(3, QHASHTBL_THREADSAFE);
    else if (K == K_TREETBL) TT = qtreetbl(QTREETBL_THREADSAFE);
    else LT = qlisttbl(K == K_LISTTBLU ? (QLISTTBL_THREADSAFE | QLISTTBL_UNIQUE) : QLISTTBL_THREADSAFE);
}
static void rel(void) {
    if (V) V->free(V); if (L) L->free(L); if (HT) HT->free(HT); if (TT) TT->free(TT); if (LT) LT->free(LT); if (QU) QU->free(QU); if (ST) ST->free(ST);
}
static const char *keyname(int k) { static const char *n[] = {"k0", "k1", "k2", "k3", "k4", "k5", "k6", "k7"}; return n[k & 7]; }
static int keyof(const char *s) { return (s && s[0] == 'k') ? atoi(s + 1) : -1; }

static int elem_int(const void *d) { return !d ? 0 : FL == 1 ? (int) *(const int64_t *) d : FL == 2 ? atoi((const char *) d) : *(const int *) d; }
/* one API call; fills out / outs */
static void run_op(oprec *o) {
    o->out = 0; o->nouts = 0;
    int x = o->a; size_t sz = 0; void *p = NULL;
    if (K == K_VECTOR) {
        if (!strcmp(o->op, "addlast")) o->out = V->addlast(V, &x);
        else if (!strcmp(o->op, "addfirst")) o->out = V->addfirst(V, &x);
        else if (!strcmp(o->op, "popfirst")) { p = V->popfirst(V); o->out = p ? *(int *) p : 0; free(p); }
        else if (!strcmp(o->op, "poplast")) { p = V->poplast(V); o->out = p ? *(int *) p : 0; free(p); }
        else if (!strcmp(o->op, "getat")) { p = V->getat(V, o->a, true); o->out = p ? *(int *) p : 0; free(p); }
        else if (!strcmp(o->op, "clear")) { V->clear(V); o->out = 1; }
        else if (!strcmp(o->op, "toarray")) {
            size_t n = 0; int *arr = V->toarray(V, &n);
            o->out = arr ? (int) n : 0;
            for (size_t j = 0; arr && j < n && j < 64; j++) o->outs[o->nouts++][0] = arr[j];
            free(arr);
        } else if (!strcmp(o->op, "walk")) {
            qvector_obj_t it; memset(&it, 0, sizeof it);
            V->lock(V);
            free(V->getat(V, 0, true));         /* a locking method under the caller's own hold: the lock must nest */
            while (V->getnext(V, &it, false) && o->nouts < 64) o->outs[o->nouts++][0] = *(int *) it.data;
            V->unlock(V);
            o->out = o->nouts;
        }
    } else if (K == K_QUEUE) {
        char sv[16]; snprintf(sv, sizeof sv, "%d", x);
        if (!strcmp(o->op, "addlast")) o->out = FL == 1 ? QU->pushint(QU, x) : FL == 2 ? QU->pushstr(QU, sv) : QU->push(QU, &x, sizeof x);
        else if (!strcmp(o->op, "popfirst")) {
            if (FL == 1) o->out = (int) QU->popint(QU);
            else if (FL == 2) { char *q = QU->popstr(QU); o->out = q ? atoi(q) : 0; free(q); }
            else { p = QU->pop(QU, &sz); o->out = p ? *(int *) p : 0; free(p); }
        } else if (!strcmp(o->op, "getat")) { p = QU->getat(QU, o->a, &sz, true); o->out = elem_int(p); free(p); }
        else if (!strcmp(o->op, "clear")) { QU->clear(QU); o->out = 1; }
    } else if (K == K_STACK) {
        char sv[16]; snprintf(sv, sizeof sv, "%d", x);
        if (!strcmp(o->op, "addfirst")) o->out = FL == 1 ? ST->pushint(ST, x) : FL == 2 ? ST->pushstr(ST, sv) : ST->push(ST, &x, sizeof x);
        else if (!strcmp(o->op, "popfirst")) {
            if (FL == 1) o->out = (int) ST->popint(ST);
            else if (FL == 2) { char *q = ST->popstr(ST); o->out = q ? atoi(q) : 0; free(q); }
            else { p = ST->pop(ST, &sz); o->out = p ? *(int *) p : 0; free(p); }
        } else if (!strcmp(o->op, "getat")) { p = ST->getat(ST, o->a, &sz, true); o->out = elem_int(p); free(p); }
        else if (!strcmp(o->op, "clear")) { ST->clear(ST); o->out = 1; }
    } else if (K == K_LIST) {
        if (!strcmp(o->op, "addlast")) o->out = L->addlast(L, &x, sizeof x);
        else if (!strcmp(o->op, "addfirst")) o->out = L->addfirst(L, &x, sizeof x);
        else if (!strcmp(o->op, "popfirst")) { p = L->popfirst(L, &sz); o->out = p ? *(int *) p : 0; free(p); }
        else if (!strcmp(o->op, "poplast")) { p = L->poplast(L, &sz); o->out = p ? *(int *) p : 0; free(p); }
        else if (!strcmp(o->op, "getat")) { p = L->getat(L, o->a, &sz, true); o->out = p ? *(int *) p : 0; free(p); }
        else if (!strcmp(o->op, "clear")) { L->clear(L); o->out = 1; }
        else if (!strcmp(o->op, "toarray")) {
            size_t n = 0; int *arr = L->toarray(L, &n);
            o->out = arr ? (int) (n / sizeof(int)) : 0;
            /* the array holds as many elements as the reported size says */
            for (size_t j = 0; arr && j < n / sizeof(int) && j < 64; j++) o->outs[o->nouts++][0] = arr[j];
            free(arr);
        } else if (!strcmp(o->op, "walk")) {
            qlist_obj_t it; memset(&it, 0, sizeof it);
            L->lock(L);
            { size_t z; free(L->getat(L, 0, &z, true)); }
            while (L->getnext(L, &it, false) && o->nouts < 64) o->outs[o->nouts++][0] = *(int *) it.data;
            L->unlock(L);
            o->out = o->nouts;
        }
    } else if (K == K_HASHTBL) {
        if (!strcmp(o->op, "put")) o->out = HT->put(HT, keyname(o->a), &o->b, sizeof(int));
        else if (!strcmp(o->op, "get")) { p = HT->get(HT, keyname(o->a), &sz, true); o->out = p ? *(int *) p : 0; free(p); }
        else if (!strcmp(o->op, "remove")) o->out = HT->remove(HT, keyname(o->a));
        else if (!strcmp(o->op, "clear")) { HT->clear(HT); o->out = 1; }
        else if (!strcmp(o->op, "walk")) {
            qhashtbl_obj_t it; memset(&it, 0, sizeof it);
            HT->lock(HT);
            { size_t z; free(HT->get(HT, keyname(1), &z, true)); }
            while (HT->getnext(HT, &it, false) && o->nouts < 64) { o->outs[o->nouts][0] = keyof(it.name); o->outs[o->nouts++][1] = *(int *) it.data; }
            HT->unlock(HT);
            o->out = o->nouts;
        }
    } else if (K == K_TREETBL) {
        if (!strcmp(o->op, "put")) o->out = TT->put(TT, keyname(o->a), &o->b, sizeof(int));
        else if (!strcmp(o->op, "get")) { p = TT->get(TT, keyname(o->a), &sz, true); o->out = p ? *(int *) p : 0; free(p); }
        else if (!strcmp(o->op, "remove")) o->out = TT->remove(TT, keyname(o->a));
        else if (!strcmp(o->op, "clear")) { TT->clear(TT); o->out = 1; }
        else if (!strcmp(o->op, "walk")) {
            qtreetbl_obj_t it; memset(&it, 0, sizeof it);
            TT->lock(TT);
            (void) TT->find_nearest(TT, keyname(1), strlen(keyname(1)) + 1, false);     /* as in the documented walk-from-a-key pattern */
            while (TT->getnext(TT, &it, false) && o->nouts < 64) { o->outs[o->nouts][0] = keyof(it.name); o->outs[o->nouts++][1] = *(int *) it.data; }
            TT->unlock(TT);
            o->out = o->nouts;
        }
    } else {
        if (!strcmp(o->op, "put")) o->out = LT->put(LT, keyname(o->a), &o->b, sizeof(int));
        else if (!strcmp(o->op, "get")) { p = LT->get(LT, keyname(o->a), &sz, true); o->out = p ? *(int *) p : 0; free(p); }
        else if (!strcmp(o->op, "remove")) o->out = (int) LT->remove(LT, keyname(o->a));
        else if (!strcmp(o->op, "clear")) { LT->clear(LT); o->out = 1; }
        else if (!strcmp(o->op, "walk")) {
            qlisttbl_obj_t it; memset(&it, 0, sizeof it);
            LT->lock(LT);
            { size_t z; free(LT->get(LT, keyname(1), &z, true)); }
            while (LT->getnext(LT, &it, NULL, false) && o->nouts < 64) { o->outs[o->nouts][0] = keyof(it.name); o->outs[o->nouts++][1] = *(int *) it.data; }
            LT->unlock(LT);
            o->out = o->nouts;
        }
    }
}

/* snapshot of the container at a quiescent point, read through the public struct fields */
static void tree_inorder(vh_buf *b, qtreetbl_obj_t *o, int *first) {
    if (!o) return;
    tree_inorder(b, o->left, first);
    vh_bprintf(b, "%s[%d,%d]", *first ? "" : ",", keyof(o->name), *(int *) o->data); *first = 0;
    tree_inorder(b, o->right, first);
}
static void snapshot(vh_buf *b) {
    vh_bprintf(b, "[");
    int first = 1;
    if (K == K_VECTOR) for (size_t j = 0; j < V->num; j++) vh_bprintf(b, "%s%d", j ? "," : "", ((int *) V->data)[j]);
    else if (K == K_LIST || K == K_QUEUE || K == K_STACK) for (qlist_obj_t *o = (K == K_LIST ? L : K == K_QUEUE ? QU->list : ST->list)->first; o; o = o->next) { vh_bprintf(b, "%s%d", first ? "" : ",", K == K_LIST ? *(int *) o->data : elem_int(o->data)); first = 0; }
    else if (K == K_HASHTBL) {
        for (int k = 0; k < 8; k++)
            for (size_t i = 0; i < HT->range; i++)
                for (qhashtbl_obj_t *o = HT->slots[i]; o; o = o->next)
                    if (keyof(o->name) == k) { vh_bprintf(b, "%s[%d,%d]", first ? "" : ",", k, *(int *) o->data); first = 0; }
    } else if (K == K_TREETBL) tree_inorder(b, TT->root, &first);
    else for (qlisttbl_obj_t *o = LT->first; o; o = o->next) { vh_bprintf(b, "%s[%d,%d]", first ? "" : ",", keyof(o->name), *(int *) o->data); first = 0; }
    vh_bprintf(b, "]");
}
static void emit_ops(vh_buf *b, int pairs) {
    vh_bprintf(b, "\"ops\":[");
    int first = 1;
    for (int t = 0; t < NT; t++) for (int i = 0; i < nops[t]; i++) {
        oprec *o = &prog[t][i];
        vh_bprintf(b, "%s{\"t\":%d,\"op\":\"%s\",\"a\":%d,\"b\":%d,\"inv\":%ld,\"res\":%ld,\"out\":%d,\"outs\":[", first ? "" : ",", t + 1, o->op, o->a, o->b, o->inv, o->res, o->out);
        first = 0;
        for (int j = 0; j < o->nouts; j++) {
            if (pairs) vh_bprintf(b, "%s[%d,%d]", j ? "," : "", o->outs[j][0], o->outs[j][1]); else vh_bprintf(b, "%s%d", j ? "," : "", o->outs[j][0]);
        }
        vh_bprintf(b, "]}");
    }
    vh_bprintf(b, "]");
}

/* forced unlocks: a thread whose trylock has failed MAX_MUTEX_LOCK_WAIT+1 times in a row is about to "force" the lock open */
static __thread long spin_fails;
static volatile long forced;
static void h_lockfail(void) { if (++spin_fails == MAX_MUTEX_LOCK_WAIT + 1) { __sync_fetch_and_add(&forced, 1); spin_fails = 0; } }

/* ------------------------------------------------------------------ deterministic scheduler */
static sem_t go[MAXT], back;
static __thread int me = -1; static __thread int depth = 0;
static volatile int finished[MAXT];
static volatile long lclock;
static void park(void) { sem_post(&back); sem_wait(&go[me]); }
static void h_before(void) { if (me >= 0 && depth == 0) park(); }
static void h_locked(void) { spin_fails = 0; if (me >= 0) depth++; }
static void h_unlocked(void) { if (me >= 0) { depth--; if (depth == 0) park(); } }
static void *worker_sched(void *arg) {
    me = (int) (long) arg; depth = 0;
    sem_wait(&go[me]);
    for (int i = 0; i < nops[me]; i++) {
        oprec *o = &prog[me][i];
        o->inv = lclock++;
        run_op(o);
        o->res = lclock++;
        if (i + 1 < nops[me]) park();
    }
    finished[me] = 1;
    sem_post(&back);
    return NULL;
}
static int read_program(const char *path) {
    FILE *f = fopen(path, "r"); if (!f) return -1;
    char line[2048]; NT = 0;
    while (fgets(line, sizeof line, f) && NT < MAXT) {
        nops[NT] = 0;
        for (char *tok = strtok(line, ";"); tok; tok = strtok(NULL, ";")) {
            oprec *o = &prog[NT][nops[NT]]; memset(o, 0, sizeof *o);
            if (sscanf(tok, " %11s %d %d", o->op, &o->a, &o->b) >= 1 && nops[NT] < MAXOPS) nops[NT]++;
        }
        if (nops[NT] > 0) NT++;
    }
    fclose(f);
    return NT;
}
static int run_sched(const char *progf, const char *schedf, const char *outf) {
    if (read_program(progf) <= 0) return 2;
    FILE *sf = fopen(schedf, "r"); if (!sf) return 2;
    vh_open(outf);
    vh_hook_before_lock = h_before; vh_hook_locked = h_locked; vh_hook_unlocked = h_unlocked; vh_hook_lock_failed = h_lockfail;
    int pairs = !ISSEQ;
    char line[4096]; vh_buf b = {0};
    for (int t = 0; t < MAXT; t++) sem_init(&go[t], 0, 0);
    sem_init(&back, 0, 0);
    while (fgets(line, sizeof line, sf)) {
        mk();
        lclock = 0;
        pthread_t th[MAXT];
        for (int t = 0; t < NT; t++) { finished[t] = 0; pthread_create(&th[t], NULL, worker_sched, (void *) (long) t); }
        vh_watchdog(10);
        for (char *tok = strtok(line, " \t\r\n,[]"); tok; tok = strtok(NULL, " \t\r\n,[]")) {
            int t = atoi(tok) - 1;
            if (t < 0 || t >= NT || finished[t]) continue;
            sem_post(&go[t]); sem_wait(&back);
        }
        for (int again = 1; again;) { again = 0; for (int t = 0; t < NT; t++) if (!finished[t]) { sem_post(&go[t]); sem_wait(&back); again = 1; } }
        alarm(0);
        for (int t = 0; t < NT; t++) pthread_join(th[t], NULL);
        static long seen_forced;
        if (forced) seen_forced++;
        vh_bprintf(&b, "{\"kind\":\"%s\",\"forced\":%ld,\"init\":[],", kindname, forced); forced = 0;
        emit_ops(&b, pairs);
        vh_bprintf(&b, ",\"final\":");
        snapshot(&b);
        vh_bprintf(&b, "}");
        vh_bflush(&b);
        rel();
        if (seen_forced >= 3) break;            /* every forced unlock costs MAX_MUTEX_LOCK_WAIT sleeps: three such histories are enough */
    }
    vh_close();
    return 0;
}

/* ------------------------------------------------------------------ free-running stress in barrier-separated rounds */
static pthread_barrier_t bar;
static int S_OPS, S_ROUNDS; static unsigned S_SEED;
static long gclock;
static vh_buf sb; static char *prev_final;
static void gen_op(oprec *o, unsigned *rs) {
    memset(o, 0, sizeof *o);
    *rs = *rs * 1103515245u + 12345u; unsigned r = (*rs >> 8);
    if (K == K_QUEUE || K == K_STACK) {
        /* queue: push at the back, pop at the front; stack: push and pop at the front */
        static const char *qops[] = {"addlast", "addlast", "popfirst", "getat", "popfirst", "addlast", "clear"};
        strcpy(o->op, qops[r % 7]); if (!strcmp(o->op, "clear") && (r >> 8) % 4) strcpy(o->op, "getat");
        if (K == K_STACK && !strcmp(o->op, "addlast")) strcpy(o->op, "addfirst");
        o->a = !strncmp(o->op, "add", 3) ? 1 + (int) ((r >> 12) % 9) : (int) ((r >> 12) % 3);
    } else if (ISSEQ) {
        static const char *ops[] = {"addlast", "addlast", "addfirst", "popfirst", "poplast", "getat", "toarray", "walk", "clear", "addlast", "popfirst"};
        strcpy(o->op, ops[r % 11]); if (!strcmp(o->op, "clear") && (r >> 8) % 4) strcpy(o->op, "getat");
        o->a = !strncmp(o->op, "add", 3) ? 1 + (int) ((r >> 12) % 9) : (int) ((r >> 12) % 3);
    } else {
        static const char *ops[] = {"put", "put", "get", "remove", "walk", "put", "get", "clear"};
        strcpy(o->op, ops[r % 8]); if (!strcmp(o->op, "clear") && (r >> 8) % 4) strcpy(o->op, "get");
        o->a = 1 + (int) ((r >> 12) % 3); o->b = 1 + (int) ((r >> 16) % 9);
    }
}
static void *worker_stress(void *arg) {
    int t = (int) (long) arg; unsigned rs = S_SEED * 7919u + (unsigned) t * 104729u + 1;
    for (int round = 0; round < S_ROUNDS; round++) {
        for (int i = 0; i < S_OPS; i++) gen_op(&prog[t][i], &rs);
        nops[t] = S_OPS;
        pthread_barrier_wait(&bar);
        for (int i = 0; i < S_OPS; i++) {
            oprec *o = &prog[t][i];
            o->inv = __sync_fetch_and_add(&gclock, 1);
            run_op(o);
            o->res = __sync_fetch_and_add(&gclock, 1);
        }
        pthread_barrier_wait(&bar);
        if (t == 0) {
            vh_buf fb = {0};
            snapshot(&fb); vh_bprintf(&fb, "%s", "");
            vh_bprintf(&sb, "{\"kind\":\"%s\",\"forced\":%ld,\"init\":%s,", kindname, forced, prev_final); forced = 0;
            emit_ops(&sb, !ISSEQ);
            vh_bprintf(&sb, ",\"final\":%s}", fb.p);
            vh_bflush(&sb);
            vh_free(prev_final); prev_final = fb.p;
        }
        pthread_barrier_wait(&bar);
    }
    return NULL;
}
/* A second, independent container of the same kind, used by one more thread alone while the judged threads run: it is not part of any
 * history, but nothing one instance does may depend on what happens to another (state shared between instances outside their locks
 * shows as a wrong result in the judged history). */
static volatile int by_stop;
static void *bystander(void *arg) {
    (void) arg;
    int one = 1; void *p;
    qvector_t *v = NULL; qlist_t *l = NULL; qhashtbl_t *h = NULL; qtreetbl_t *t = NULL; qlisttbl_t *lt = NULL; qqueue_t *q = NULL; qstack_t *st = NULL;
    if (K == K_QUEUE) q = qqueue(QQUEUE_THREADSAFE); else if (K == K_STACK) st = qstack(QSTACK_THREADSAFE);
    else if (K == K_VECTOR) v = qvector(0, sizeof(int), QVECTOR_THREADSAFE); else if (K == K_LIST) l = qlist(QLIST_THREADSAFE);
    else if (K == K_HASHTBL) h = qhashtbl(3, QHASHTBL_THREADSAFE); else if (K == K_TREETBL) t = qtreetbl(QTREETBL_THREADSAFE);
    else lt = qlisttbl(K == K_LISTTBLU ? (QLISTTBL_THREADSAFE | QLISTTBL_UNIQUE) : QLISTTBL_THREADSAFE);
    while (!by_stop) {
        if (q) { q->pushint(q, 1); q->popint(q); q->popint(q); }
        else if (st) { st->pushint(st, 1); st->popint(st); st->popint(st); }
        else if (v) { v->addlast(v, &one); p = v->popfirst(v); free(p); p = v->popfirst(v); free(p); v->getat(v, 5, false); }
        else if (l) { l->addlast(l, &one, sizeof one); p = l->popfirst(l, NULL); free(p); p = l->popfirst(l, NULL); free(p); }
        else if (h) { h->putstr(h, "x", "1"); h->remove(h, "nothing"); h->remove(h, "x"); p = h->getstr(h, "x", true); free(p); }
        else if (t) { t->putstr(t, "x", "1"); t->remove(t, "nothing"); t->remove(t, "x"); p = t->getstr(t, "x", true); free(p); }
        else if (lt) { lt->putstr(lt, "x", "1"); lt->remove(lt, "nothing"); lt->remove(lt, "x"); p = lt->getstr(lt, "x", true); free(p); }
    }
    if (q) q->free(q); if (st) st->free(st); if (v) v->free(v); if (l) l->free(l); if (h) h->free(h); if (t) t->free(t); if (lt) lt->free(lt);
    return NULL;
}
static int run_stress(int threads, int opsper, int rounds, unsigned seed, const char *outf) {
    NT = threads; S_OPS = opsper; S_ROUNDS = rounds; S_SEED = seed;
    vh_hook_locked = h_locked; vh_hook_lock_failed = h_lockfail;
    vh_open(outf);
    mk();
    prev_final = vh_malloc(4); strcpy(prev_final, "[]");
    pthread_barrier_init(&bar, NULL, (unsigned) threads);
    pthread_t th[MAXT];
    /* not on the race-detecting build: the tree table keeps three file-scope statistics counters (_q_treetbl_*_cnt, no container state,
     * no property speaks of them) that two tables in two threads increment without synchronisation */
    pthread_t by; by_stop = 0; int have_by = 0;
#ifndef VH_SANITIZER
    have_by = pthread_create(&by, NULL, bystander, NULL) == 0;
#endif
    for (int t = 0; t < threads; t++) pthread_create(&th[t], NULL, worker_stress, (void *) (long) t);
    for (int t = 0; t < threads; t++) pthread_join(th[t], NULL);
    by_stop = 1; if (have_by) pthread_join(by, NULL);
    rel();
    vh_close();
    return 0;
}

/* ------------------------------------------------------------------ the lock protocol itself (Mutex.tla conformance)
 * Two threads on one thread-safe list.  Thread 2 takes the lock (nested twice in some rounds) and keeps it while thread 1
 * enters an operation: thread 1's trylock fails MAX_MUTEX_LOCK_WAIT+1 times, the library "force-unlocks", and this repeats
 * `cycles` times before thread 2 releases and thread 1 gets in.  Every trylock attempt / acquisition / release is logged with the
 * library's shadow counter and the real depth, for MutexTrace.tla. */
static qmutex_t *MX; static vh_buf mb; static long m_failed, m_target; static int m_other;
static void mev(const char *ev, int ok) {
    vh_bprintf(&mb, "{\"ev\":\"%s\",\"t\":%d,\"ok\":%s,\"cnt\":%d,\"depth\":%ld}", ev, me + 1, vh_bool(ok), MX->count, vh_locks - vh_unlocks);
    vh_bflush(&mb);
}
static void m_before(void) { }
static void m_locked(void) { mev("try", 1); }
static void m_unlocked(void) { mev("leave", 1); }
static void m_unlockfail(void) { mev("force", 1); }
static void m_lockfail(void) {
    mev("try", 0);
    if (++m_failed == m_target) { sem_post(&go[m_other]); sem_wait(&go[me]); }      /* now let the holder release */
}
static void *mutex_holder(void *arg) {
    long nest = (long) arg;
    me = 1;
    sem_wait(&go[1]);
    mev("enter", 1); L->lock(L);
    if (nest) { mev("enter", 1); L->lock(L); }
    sem_post(&go[0]);                 /* thread 1 may start its operation now */
    sem_wait(&go[1]);                 /* ... until it has spun long enough */
    if (nest) L->unlock(L);
    L->unlock(L);
    sem_post(&go[0]);
    return NULL;
}
static int run_mutex(int rounds, const char *outf) {
    vh_open(outf);
    K = K_LIST;
    for (int t = 0; t < 2; t++) sem_init(&go[t], 0, 0);
    vh_hook_before_lock = m_before; vh_hook_locked = m_locked; vh_hook_unlocked = m_unlocked; vh_hook_lock_failed = m_lockfail; vh_hook_unlock_failed = m_unlockfail;
    for (int r = 0; r < rounds; r++) {
        vh_hook_locked = NULL; vh_hook_unlocked = NULL;
        mk();
        MX = (qmutex_t *) L->qmutex;
        vh_bprintf(&mb, "{\"ev\":\"reset\",\"t\":0,\"ok\":true,\"cnt\":%d,\"depth\":%ld}", MX->count, vh_locks - vh_unlocks); vh_bflush(&mb);
        vh_hook_locked = m_locked; vh_hook_unlocked = m_unlocked;
        me = 0; m_other = 1;
        vh_where = "lock-protocol"; vh_watchdog(60);      /* a waiter that never gets in, or gets in without the lock, ends here */
        int cycles = 1 + r % 3;
        m_failed = 0; m_target = (long) cycles * (MAX_MUTEX_LOCK_WAIT + 1) + 7 * r;   /* release in the middle of a spin cycle too */
        int x = 5;
        /* plain uncontended and nested use first */
        mev("enter", 1); L->lock(L); mev("enter", 1); L->addlast(L, &x, sizeof x); L->unlock(L);
        pthread_t th; pthread_create(&th, NULL, mutex_holder, (void *) (long) (r & 1));
        sem_post(&go[1]); sem_wait(&go[0]);               /* holder has the lock */
        mev("enter", 1);
        L->addlast(L, &x, sizeof x);                      /* spins, force-unlocks, finally acquires */
        pthread_join(th, NULL);
        alarm(0);
        vh_hook_locked = NULL; vh_hook_unlocked = NULL;
        vh_bprintf(&mb, "{\"ev\":\"end\",\"t\":0,\"ok\":%s,\"cnt\":%d,\"depth\":%ld}", vh_bool(L->size(L) == 2), MX->count, vh_locks - vh_unlocks); vh_bflush(&mb);
        rel();
    }
    vh_close();
    return 0;
}

int main(int argc, char **argv) {
    if (argc < 4) return 2;
    if (!strcmp(argv[1], "mutex")) { vh_install_handlers(); exit(run_mutex(atoi(argv[2]), argv[3])); }
    kindname = argv[2];
    K = !strcmp(kindname, "vector") ? K_VECTOR : !strcmp(kindname, "list") ? K_LIST : !strcmp(kindname, "hashtbl") ? K_HASHTBL
      : !strcmp(kindname, "treetbl") ? K_TREETBL : !strcmp(kindname, "listtblu") ? K_LISTTBLU : !strcmp(kindname, "queue") ? K_QUEUE
      : !strcmp(kindname, "stack") ? K_STACK : K_LISTTBL;
    vh_install_handlers();
    if (!strcmp(argv[1], "sched") && argc >= 6) exit(run_sched(argv[3], argv[4], argv[5]));
    if (!strcmp(argv[1], "stress") && argc >= 8) exit(run_stress(atoi(argv[3]), atoi(argv[4]), atoi(argv[5]), (unsigned) atoi(argv[6]), argv[7]));
    return 2;
}
