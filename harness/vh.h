/* libvh: shared pieces of the conformance harnesses (event log, allocation ledger, failure
 * injector, lock tracer, watchdog).  Monitors only add facts to the trace; TLC decides. */
#ifndef VH_H
#define VH_H
#include <stddef.h>
#include <stdbool.h>
#include <stdint.h>
#include <stdio.h>

/* ---- event log ------------------------------------------------------------------ */
void vh_open(const char *path);             /* trace output, one write() per line */
void vh_emit(const char *fmt, ...);         /* appends '\n' */
void vh_close(void);
int vh_ecls(int e);                         /* errno -> small class */
const char *vh_bool(int b);

/* a growing string buffer for building one event */
typedef struct { char *p; size_t n, cap; } vh_buf;
void vh_bprintf(vh_buf *b, const char *fmt, ...);
void vh_breset(vh_buf *b);
void vh_bflush(vh_buf *b);                  /* emit as one line and reset */

/* ---- allocation ledger / injector ------------------------------------------------ */
extern int vh_ledger_on;                    /* track blocks allocated from wrapped call sites */
extern long vh_call_allocs;                 /* allocations requested since vh_call_begin() */
extern long vh_fail_at;                     /* k>0: the k-th allocation since vh_call_begin fails */
extern long vh_fail_from;                   /* k>0: every allocation from the k-th on fails */
extern long vh_failed;                      /* how many allocations were made to fail in this call */
extern long vh_badfree;                     /* frees of a block already freed (quarantined) */
extern int vh_quarantine;                   /* keep freed blocks (poisoned) instead of releasing them */
void vh_call_begin(void);
void vh_call_end(void);                     /* stops injection */
long vh_live_blocks(void);
long vh_live_bytes(void);
long vh_ledger_mark(void);                  /* serial number: blocks allocated later have a greater serial */
long vh_live_since(long mark);              /* live blocks with serial > mark */
void *vh_malloc(size_t n);                  /* harness-owned allocations (never tracked, never fail) */
void vh_free(void *p);
int vh_is_live(const void *p);              /* block start known to the ledger and live */
long vh_block_size(const void *p);          /* -1 if unknown */
extern long vh_overlap_copies;                     /* memcpy/strcpy/strncpy calls with overlapping ranges */

/* ---- lock tracer ----------------------------------------------------------------- */
extern volatile long vh_locks, vh_unlocks;  /* successful trylock/lock and unlock calls */
extern volatile long vh_unlock_failures;    /* unlock calls the mutex refused (not held by the caller): an unlock too many */
#define VH_LOCK_BALANCE() (vh_locks - vh_unlocks - vh_unlock_failures)   /* depth as the code believes it to be */
extern volatile int vh_force_busy;          /* >0: that many trylock calls fail with EBUSY */
extern volatile long vh_usleeps;
/* scheduling hooks for the deterministic scheduler (harness/conc.c); NULL = off */
extern void (*vh_hook_before_lock)(void);   /* before every trylock/lock attempt */
extern void (*vh_hook_locked)(void);        /* after a successful acquisition */
extern void (*vh_hook_unlocked)(void);      /* after a successful release */
extern void (*vh_hook_lock_failed)(void);   /* after a failed trylock */
extern void (*vh_hook_unlock_failed)(void); /* after a failed unlock (e.g. EPERM: not the owner) */

/* ---- watchdog / crash reporting --------------------------------------------------- */
void vh_watchdog(int seconds);              /* alarm(); on expiry a "timeout" event is written and the process exits 3 */
void vh_install_handlers(void);             /* SIGSEGV/SIGBUS/SIGABRT/SIGFPE -> "crash" event, exit 4 */
extern const char *vh_where;                /* free text describing the call in progress (for crash events) */
extern long vh_seg, vh_step;                /* current segment / step (for crash events) */

/* ---- misc ------------------------------------------------------------------------ */
uint32_t vh_rand(void);                     /* xorshift, seeded by vh_srand */
void vh_srand(uint32_t s);
#endif
