/* Replays operation scripts on the real qtreetbl and records typed ndjson events for TreeTrace.tla.
 * usage: replay_tree <script> <trace> <profile> <flags> [shapemax]
 *   profile 0: NUL-terminated string keys through put/get/remove, built-in ordering
 *           1: binary keys (embedded NULs, differing lengths, prefixes of each other) through putobj/getobj/removeobj
 *           2: user comparator: native int32 keys compared numerically (negative numbers included)
 *           3: user comparator: reversed byte-wise ordering
 *           4: user comparator: case-insensitive strings; every call spells its key in upper or lower case, so keys that
 *              compare equal differ in their bytes and, with a trailing "~~" that the comparator ignores, in their length (the
 *              stored spelling is that of the first insertion)
 *   flags: t = QTREETBL_THREADSAFE, a/f = allocation failure injection (single / all-from-k) */
#include "qlibc.h"
#include "vh.h"
#include <stdlib.h>
#include <string.h>
#include <errno.h>

static int profile;
static unsigned char lastkey[32]; static size_t lastkn; static int lastlive;       /* key returned by the latest getnext (for rmnext) */
static int upper;           /* profile 4: spelling used by the current call */
#define STRKEYS (profile == 0 || profile == 3 || profile == 4)
static long cmps;
static long halfobj;
#define KMAX 100000

static size_t mkkey(unsigned char *b, int id) {
    switch (profile) {
    case 0: return (size_t) sprintf((char *) b, "k%06d", id) + 1;
    case 1: { int h = id / 2 + 0x7fff;      /* the smallest keys straddle 0x7f/0x80 in their FIRST byte (and 0xff/0x00 in the second): unsigned byte order */
              b[0] = (unsigned char) (h >> 8); b[1] = (unsigned char) h; if (id & 1) { b[2] = 0; return 3; } return 2; }
    case 2: { int32_t x = id * 7 - 50; memcpy(b, &x, 4); return 4; }
    case 3: return (size_t) sprintf((char *) b, "r%06d", KMAX - id) + 1;
    default: return (size_t) sprintf((char *) b, upper == 1 ? "KEY%06dX" : upper == 2 ? "key%06dx~~" : "key%06dx", id) + 1;   /* three spellings, two lengths */
    }
}
static int keyid(const void *p, size_t n) {
    if (!p) return 0;
    const unsigned char *b = p;
    int id = -1;
    switch (profile) {
    case 0: if (n == 8 && b[0] == 'k' && b[7] == 0) id = atoi((const char *) b + 1); break;
    case 1: if ((n == 2 || n == 3) && ((b[0] << 8) | b[1]) >= 0x7fff) id = (((b[0] << 8) | b[1]) - 0x7fff) * 2 + (n == 3); break;
    case 2: if (n == 4) { int32_t x; memcpy(&x, b, 4); if ((x + 50) % 7 == 0) id = (x + 50) / 7; } break;
    case 3: if (n == 8 && b[0] == 'r' && b[7] == 0) id = KMAX - atoi((const char *) b + 1); break;
    default: if ((n == 11 || n == 13) && (b[0] == 'k' || b[0] == 'K') && b[n - 1] == 0) id = atoi((const char *) b + 3); break;
    }
    if (id < 0) return -1;
    unsigned char t[16]; size_t tn = mkkey(t, id);
    if (profile == 4) {       /* any of the three spellings of that id */
        char want[3][16]; int hit = 0;
        snprintf(want[0], 16, "key%06dx", id); snprintf(want[1], 16, "KEY%06dX", id); snprintf(want[2], 16, "key%06dx~~", id);
        for (int j = 0; j < 3; j++) if (strlen(want[j]) + 1 == n && !memcmp(want[j], b, n)) hit = 1;
        (void) tn;
        return hit ? id : -1;
    }
    return (tn == n && !memcmp(t, b, n)) ? id : -1;
}
/* values: 1,2 ordinary (different lengths), 3 empty, 4 with embedded and trailing NUL, 5 a C string */
static size_t mkval(unsigned char *b, int v) {
    switch (v) {
    case 1: memcpy(b, "value-one", 9); return 9;
    case 2: memcpy(b, "v2\xff\x80" "2222222222222222222222222222", 32); return 32;
    case 3: return 0;
    case 4: memcpy(b, "a\0b\0", 4); return 4;
    case 5: memcpy(b, "str\0", 4); return 4;
    case 6: memcpy(b, "a\0c\0", 4); return 4;          /* same size as 4 and equal up to the first NUL */
    case 7: memcpy(b, "value-o", 7); return 7;         /* a proper prefix of value 1 */
    default: b[0] = (unsigned char) v; return 1;
    }
}
static int valid_(const void *p, size_t n) {
    if (!p) return n == 0 ? 3 : 0;
    unsigned char t[64];
    for (int v = 1; v <= 7; v++) { size_t tn = mkval(t, v); if (tn == n && (n == 0 || !memcmp(t, p, n))) return v; }
    return -1;
}
static int cmp_int(const void *a, size_t an, const void *b, size_t bn) {
    cmps++;
    int32_t x = 0, y = 0; memcpy(&x, a, an < 4 ? an : 4); memcpy(&y, b, bn < 4 ? bn : 4);
    return x < y ? -1 : x > y ? 1 : 0;
}
/* profile 4: letters compare without case and trailing '~' do not count: equal keys may differ in bytes and in length */
static int cmp_case(const void *a, size_t an, const void *b, size_t bn) {
    (void) an; (void) bn; cmps++;
    const char *x = a, *y = b; size_t lx = strlen(x), ly = strlen(y);
    while (lx && x[lx - 1] == '~') lx--;
    while (ly && y[ly - 1] == '~') ly--;
    int c = strncasecmp(x, y, lx < ly ? lx : ly);
    return c ? c : (lx < ly ? -1 : lx > ly);
}
static int cmp_rev(const void *a, size_t an, const void *b, size_t bn) { cmps++; return -qtreetbl_byte_cmp(a, an, b, bn); }
static int cmp_cnt(const void *a, size_t an, const void *b, size_t bn) { cmps++; return qtreetbl_byte_cmp(a, an, b, bn); }

/* ---- projection of the real tree ---- */
static qtreetbl_obj_t *nodes[1 << 16]; static int nnodes;
static void collect(qtreetbl_obj_t *o) { if (!o || nnodes >= (1 << 16)) return; nodes[nnodes++] = o; collect(o->left); collect(o->right); }
static int ptr_to_key(qtreetbl_obj_t *p) {
    if (!p) return 0;
    for (int i = 0; i < nnodes; i++) if (nodes[i] == p) return keyid(p->name, p->namesize);
    return -1;
}
static void shape(vh_buf *b, qtreetbl_obj_t *o) {
    if (!o) { vh_bprintf(b, "[]"); return; }
    vh_bprintf(b, "[%d,%d,%s,%d,%d,", keyid(o->name, o->namesize), valid_(o->data, o->datasize), vh_bool(o->red), o->tid, ptr_to_key(o->next));
    shape(b, o->left); vh_bprintf(b, ","); shape(b, o->right); vh_bprintf(b, "]");
}
static void inorder(vh_buf *b, qtreetbl_obj_t *o, int *first) {
    if (!o) return;
    inorder(b, o->left, first);
    vh_bprintf(b, "%s[%d,%d]", *first ? "" : ",", keyid(o->name, o->namesize), valid_(o->data, o->datasize)); *first = 0;
    inorder(b, o->right, first);
}
static int height(qtreetbl_obj_t *o) { if (!o) return 0; int l = height(o->left), r = height(o->right); return 1 + (l > r ? l : r); }

static struct { void *p; int id; size_t n; int iskey; } kept[64];
static int nkept;
static void keep(void *p, int id, size_t n, int iskey) {
    if (!p) return;
    if (nkept < 64 && id > 0) { kept[nkept].p = p; kept[nkept].id = id; kept[nkept].n = n; kept[nkept].iskey = iskey; nkept++; }
    else free(p);
}
static int check_kept(void) {
    int ok = 1;
    for (int k = 0; k < nkept; k++) {
        int id = kept[k].iskey ? keyid(kept[k].p, kept[k].n) : valid_(kept[k].p, kept[k].n);
        if (id != kept[k].id) ok = 0;
        free(kept[k].p);
    }
    nkept = 0;
    return ok;
}
static int is_alloc_op(const char *op) {
    return !strcmp(op, "put") || !strcmp(op, "get") || !strcmp(op, "rm") || !strcmp(op, "min") || !strcmp(op, "max")
        || !strcmp(op, "next") || !strcmp(op, "nearest") || !strcmp(op, "walk");
}

int main(int argc, char **argv) {
    if (argc < 5) return 2;
    profile = atoi(argv[3]);
    int ts = strchr(argv[4], 't') != NULL, inj_at = strchr(argv[4], 'a') != NULL, inj_from = strchr(argv[4], 'f') != NULL;
    int shapemax = argc > 5 ? atoi(argv[5]) : 15;
    FILE *in = fopen(argv[1], "r");
    if (!in) return 2;
    FILE *devnull = fopen("/dev/null", "w");
    vh_open(argv[2]);
    vh_install_handlers();
    vh_ledger_on = 1; vh_quarantine = 1;
    qtreetbl_t *T = NULL;
    qtreetbl_obj_t cur; memset(&cur, 0, sizeof cur);
    char line[256], op[32];
    vh_buf b = {0};
    long mark = 0, evno = 0;
    while (1) {
        char *got = fgets(line, sizeof line, in);
        if (!got || !strncmp(line, "reset", 5)) {
            if (T) {
                T->free(T);
                int cok = check_kept();
                vh_emit("{\"op\":\"free\",\"a\":0,\"b\":0,\"live\":%ld,\"copies_ok\":%s}", vh_live_since(mark), vh_bool(cok));
                T = NULL;
            }
            if (!got) break;
            vh_seg++; vh_step = 0;
            mark = vh_ledger_mark();
            if (inj_at || inj_from) {
                /* constructor under allocation failure: NULL and nothing left allocated, or a working object */
                for (long ck = 1; ck <= 16; ck++) {
                    long m0 = vh_ledger_mark();
                    vh_where = "ctor";
                    vh_call_begin();
                    if (inj_at) vh_fail_at = ck; else vh_fail_from = ck;
                    T = qtreetbl(ts ? QTREETBL_THREADSAFE : 0);
                    long nf = vh_failed;
                    vh_call_end();
                    int cok = T != NULL;
                    if (T) { T->free(T); T = NULL; }
                    vh_emit("{\"op\":\"ctor\",\"a\":0,\"b\":0,\"inj\":%ld,\"nfail\":%ld,\"ok\":%s,\"live\":%ld}", ck, nf, vh_bool(cok), vh_live_since(m0));
                    if (nf == 0) break;
                }
            }

            T = qtreetbl(ts ? QTREETBL_THREADSAFE : 0);
            if (!T) return 2;
            if (profile == 1) T->set_compare(T, cmp_cnt);
            else if (profile == 2) T->set_compare(T, cmp_int);
            else if (profile == 3) T->set_compare(T, cmp_rev);
            else if (profile == 4) T->set_compare(T, cmp_case);
            memset(&cur, 0, sizeof cur);
            vh_emit("{\"op\":\"reset\",\"a\":0,\"b\":0,\"ttid\":%d}", T->tid);
            continue;
        }
        int a = 0, bb = 0;
        if (sscanf(line, "%31s %d %d", op, &a, &bb) < 1) continue;
        vh_step++; evno++;
        vh_where = op;
        int inject = (inj_at || inj_from) && is_alloc_op(op);
        for (long k = 1;; k++) {
            if (inject && k > 300) inject = 0;      /* give up injecting: finish the operation normally */
            unsigned char kb0[16], vb0[64];
            upper = (int) ((((unsigned long) vh_step * 2654435761UL) >> 7) % 3);
            size_t kn = mkkey(kb0, a), vn = mkval(vb0, bb);
            /* caller data lives in exactly-sized heap buffers that are scribbled and released after the call */
            unsigned char *kb = vh_malloc(kn ? kn : 1), *vb = vh_malloc(vn ? vn : 1);
            memcpy(kb, kb0, kn); memcpy(vb, vb0, vn);
            int ok = 1, rk = 0, rv = 0; long n = 0; size_t sz = 0; void *p = NULL;
            static int outk[70000], outv[70000]; int nout = -1;
            long lkb = VH_LOCK_BALANCE(), ovb = vh_overlap_copies, bfb = vh_badfree;
            int newmem = (int) (vh_step & 1);
            cmps = 0;
            vh_watchdog(6);
            errno = 0;
            vh_call_begin();
            if (inject) { if (inj_at) vh_fail_at = k; else vh_fail_from = k; }
            if (!strcmp(op, "put")) {
                if STRKEYS {
                    if (bb == 5 && (vh_step & 2)) ok = T->putstr(T, (char *) kb, (char *) vb);
                    else if (bb == 5) ok = T->putstrf(T, (char *) kb, "%s", (char *) vb);
                    else ok = T->put(T, (char *) kb, (vn || (vh_step & 1)) ? vb : NULL, vn);        /* an empty value: NULL or a valid pointer with size 0 */
                } else ok = T->putobj(T, kb, kn, (vn || (vh_step & 1)) ? vb : NULL, vn);
            } else if (!strcmp(op, "get")) {
                sz = 99999;
                if (STRKEYS && (vh_step % 5) == 0) {
                    /* getstr has no size output: usable when the stored value is a C string */
                    char *sp = T->getstr(T, (char *) kb, newmem);
                    if (sp && vh_failed == 0) {
                        long c1 = cmps;
                        size_t cur_sz = 0; void *chk = T->get(T, (char *) kb, &cur_sz, false);
                        cmps = c1;                  /* the size lookup is the harness's, not part of the call under test */
                        sz = chk ? cur_sz : 0; p = sp;
                    } else { p = sp; sz = sp ? strlen(sp) + 1 : 0; }
                } else if STRKEYS {
                    p = T->get(T, (char *) kb, &sz, newmem);
                    /* putting back the very buffer the table handed out (no copy) must leave the value as it is */
                    if (p && !newmem && !inject && (vh_step % 3) == 0) { long c1 = cmps; if (!T->put(T, (char *) kb, p, sz)) ok = 0; p = T->get(T, (char *) kb, &sz, false); cmps = c1; }
                }
                else p = T->getobj(T, kb, kn, &sz, newmem);
                ok = p != NULL;
                if (p) { rv = valid_(p, sz); n = (long) sz; if (newmem) keep(p, rv, sz, 0); }
                else n = (long) sz;
                p = NULL;
            } else if (!strcmp(op, "rm")) {
                if STRKEYS ok = T->remove(T, (char *) kb); else ok = T->removeobj(T, kb, kn);
            } else if (!strcmp(op, "min") || !strcmp(op, "max")) {
                sz = 0;
                p = op[1] == 'i' ? T->find_min(T, &sz) : T->find_max(T, &sz);
                ok = p != NULL;
                if (p) { rk = keyid(p, sz); keep(p, rk, sz, 1); p = NULL; }
            } else if (!strcmp(op, "size")) { n = (long) T->size(T); }
            else if (!strcmp(op, "clear")) { T->clear(T); }
            else if (!strcmp(op, "debug")) { ok = T->debug(T, devnull); }
            else if (!strcmp(op, "next")) {
                if (ts) T->lock(T);
                ok = T->getnext(T, &cur, newmem);
                if (ts) T->unlock(T);
                if (ok) {
                    rk = keyid(cur.name, cur.namesize); rv = valid_(cur.data, cur.datasize);
                    lastkn = cur.namesize < sizeof lastkey ? cur.namesize : 0; memcpy(lastkey, cur.name, lastkn); lastlive = 1;
                    if (newmem) {
                        if (cur.name) keep(cur.name, rk, cur.namesize, 1);
                        if (cur.data) keep(cur.data, rv, cur.datasize, 0);
                    }
                } else if (errno != ENOMEM) { memset(&cur, 0, sizeof cur); lastlive = 0; }     /* after a failed copy the same call is simply repeated */
            } else if (!strcmp(op, "rmnext") && !lastlive) {
                strcpy(op, "skip");         /* random histories cannot know where a sweep with removals ends: nothing to remove */
            } else if (!strcmp(op, "rmnext")) {
                lastlive = 0;
                /* the documented "removal in an iteration loop": remove the key the last getnext returned, then rewind with
                 * find_nearest on that key and go on calling getnext */
                if (ts) T->lock(T);
                a = keyid(lastkey, lastkn);
                ok = lastkn ? T->removeobj(T, lastkey, lastkn) : 0;
                cur = T->find_nearest(T, lastkey, lastkn, false);
                if (ts) T->unlock(T);
                rk = cur.name ? keyid(cur.name, cur.namesize) : 0;
                rv = cur.name ? valid_(cur.data, cur.datasize) : 0;
            } else if (!strcmp(op, "abandon")) { memset(&cur, 0, sizeof cur); lastlive = 0; }
            else if (!strcmp(op, "nearest")) {
                qtreetbl_obj_t r = T->find_nearest(T, kb, kn, newmem);
                ok = r.name != NULL;
                if (ok) {
                    rk = keyid(r.name, r.namesize); rv = valid_(r.data, r.datasize);
                    if (newmem) { keep(r.name, rk, r.namesize, 1); if (r.data) keep(r.data, rv, r.datasize, 0); }
                    if (bb == 1) cur = r;
                } else if (newmem && r.data && vh_failed > 0) {
                    halfobj++;              /* failure reported (no name) yet a copy of the value was handed out */
                    free(r.data);
                }
            } else if (!strcmp(op, "walk")) {
                qtreetbl_obj_t o; memset(&o, 0, sizeof o);
                nout = 0;
                if (ts) T->lock(T);
                while (T->getnext(T, &o, newmem)) {
                    if (nout < 70000) { outk[nout] = keyid(o.name, o.namesize); outv[nout] = valid_(o.data, o.datasize); }
                    nout++;
                    if (newmem) { free(o.name); free(o.data); }
                    if (nout > 200000) break;
                }
                if (ts) T->unlock(T);
                ok = (errno != ENOMEM);      /* the end of a traversal is reported without an error code */
                n = nout;
            }
            int e = ok ? 0 : vh_ecls(errno);
            long nfail = vh_failed, mycmps = cmps;
            vh_call_end();
            alarm(0);
            memset(kb, 0xA5, kn); memset(vb, 0x5A, vn); vh_free(kb); vh_free(vb);
            nnodes = 0; collect(T->root);
            int hs = nnodes <= shapemax;
            vh_bprintf(&b, "{\"op\":\"%s\",\"a\":%d,\"b\":%d,\"inj\":%ld,\"nfail\":%ld,\"ok\":%s,\"err\":%d,\"rk\":%d,\"rv\":%d,\"n\":%ld,",
                       op, a, bb, inject ? k : 0L, nfail, vh_bool(ok), e, rk, rv, n);
            vh_bprintf(&b, "\"size\":%zu,\"chk\":%d,\"cmps\":%ld,\"h\":%d,\"cnt\":%d,\"ttid\":%d,\"ctid\":%d,\"cnx\":%d,\"hs\":%s,\"shape\":",
                       T->size(T), qtreetbl_check(T), (profile == 0) ? -1L : mycmps, height(T->root), nnodes, T->tid, cur.tid, ptr_to_key(cur.next), vh_bool(hs));
            if (hs) shape(&b, T->root); else vh_bprintf(&b, "[]");
            vh_bprintf(&b, ",\"half\":%ld", halfobj); halfobj = 0;
            int full = hs || (evno % 200 == 0);
            vh_bprintf(&b, ",\"full\":%s,\"ino\":[", vh_bool(full));
            if (full) { int first = 1; inorder(&b, T->root, &first); }
            vh_bprintf(&b, "],\"out\":[");
            for (int j = 0; j < nout && j < 70000; j++) vh_bprintf(&b, "%s[%d,%d]", j ? "," : "", outk[j], outv[j]);
            vh_bprintf(&b, "],\"lkd\":%ld,\"ovl\":%ld,\"bf\":%ld}", VH_LOCK_BALANCE() - lkb, vh_overlap_copies - ovb, vh_badfree - bfb);
            vh_bflush(&b);
            if (!inject || nfail == 0 || ok ) break;
        }
    }
    vh_close();
    exit(0);
}
