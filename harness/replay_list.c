/* Replays operation scripts on the real qlist / qqueue / qstack / qgrow and records typed ndjson events
 * for ListTrace.tla.
 * usage: replay_list <script> <trace> <list|queue|stack|grow> <profile> <flags>
 *   flags: t = *_THREADSAFE, a = inject single allocation failures, f = inject "all from k-th fail" */
#include "qlibc.h"
#include "vh.h"
#include <stdlib.h>
#include <string.h>
#include <errno.h>

#define NV 4
static unsigned char VB[NV + 1][2112];
static size_t VS[NV + 1];
static void setv(int id, const void *b, size_t n) { memcpy(VB[id], b, n); VS[id] = n; }
static void profile_init(int p) {
    if (p == 0) {
        setv(1, "ab\0", 3); setv(2, "c", 1); setv(3, "d\0e", 3);
        int64_t x = 0x0102030405060708LL; setv(4, &x, 8);
    } else if (p == 1) {
        setv(1, "\0", 1); setv(2, "\x80\xff", 2); setv(3, "\0\0", 2);
        unsigned char b[33]; for (int i = 0; i < 32; i++) b[i] = (unsigned char) (65 + i % 26); b[32] = 0; setv(4, b, 33);
    } else if (p == 2) {
        unsigned char b[150];
        for (int i = 0; i < 150; i++) b[i] = (unsigned char) (i * 7 + 3) | 1;
        setv(1, b, 100); b[5] ^= 0x40; setv(2, b, 100); setv(3, b, 99); b[148] = 0; b[149] = 0; setv(4, b, 150);
    } else if (p == 5) {
        /* lengths at the sizes of the formatting scratch buffer (1024, doubling): addstrf / pushstr of exactly that many characters */
        static unsigned char b[2100];
        for (int i = 0; i < 2100; i++) b[i] = (unsigned char) ('a' + (i * 7 + i / 26) % 26);
        setv(1, b, 1024); setv(2, b + 1, 1023); setv(3, b + 2, 2048); setv(4, b + 3, 1025);
    } else if (p == 4) {
        setv(1, "p\0q", 3); setv(2, "p\0r", 3); setv(3, "p\0", 2); setv(4, "p\0q\0", 4);   /* equal up to an embedded NUL */
    } else {
        setv(1, "x\0", 2); setv(2, "x", 1); setv(3, "x\0x", 3); setv(4, "xx\0", 3);   /* values that are prefixes of each other */
    }
}
static int vid(const void *p, size_t n) {
    if (!p) return 0;
    for (int i = 1; i <= NV; i++) if (n == VS[i] && !memcmp(p, VB[i], n)) return i;
    return -1;
}
static int is_cstr(int v) { return VS[v] >= 1 && VB[v][VS[v] - 1] == 0 && strlen((char *) VB[v]) + 1 == VS[v]; }
static int is_nonul(int v) { return memchr(VB[v], 0, VS[v]) == NULL; }

static struct { unsigned char *p; int id; size_t n; } kept[64];
static int nkept;
static void keep(void *p, int id, size_t n) {
    if (!p) return;
    if (nkept < 64 && id > 0) { kept[nkept].p = p; kept[nkept].id = id; kept[nkept].n = n; nkept++; }
    else free(p);
}
static int check_kept(void) {
    int ok = 1;
    for (int k = 0; k < nkept; k++) { if (vid(kept[k].p, kept[k].n) != kept[k].id) ok = 0; free(kept[k].p); }
    nkept = 0;
    return ok;
}
static int is_alloc_op(const char *op) {
    return !strncmp(op, "add", 3) || !strncmp(op, "get", 3) || !strncmp(op, "pop", 3) || !strcmp(op, "push")
        || !strcmp(op, "toarray") || !strcmp(op, "tostring") || !strcmp(op, "walk");
}

int main(int argc, char **argv) {
    if (argc < 6) return 2;
    const char *kind = argv[3];
    int K = !strcmp(kind, "queue") ? 1 : !strcmp(kind, "stack") ? 2 : !strcmp(kind, "grow") ? 3 : 0;
    profile_init(atoi(argv[4]));
    int ts = strchr(argv[5], 't') != NULL, inj_at = strchr(argv[5], 'a') != NULL, inj_from = strchr(argv[5], 'f') != NULL;
    FILE *in = fopen(argv[1], "r");
    if (!in) return 2;
    FILE *devnull = fopen("/dev/null", "w");
    vh_open(argv[2]);
    vh_install_handlers();
    vh_ledger_on = 1; vh_quarantine = 1;
    qlist_t *L = NULL; qqueue_t *Q = NULL; qstack_t *S = NULL; qgrow_t *G = NULL;
    char line[256], op[32];
    vh_buf b = {0};
    long mark = 0;
    while (1) {
        char *got = fgets(line, sizeof line, in);
        if (!got || !strncmp(line, "reset", 5)) {
            if (L) {
                if (K == 0) L->free(L); else if (K == 1) Q->free(Q); else if (K == 2) S->free(S); else G->free(G);
                int cok = check_kept();
                vh_emit("{\"op\":\"free\",\"i\":0,\"v\":0,\"live\":%ld,\"copies_ok\":%s}", vh_live_since(mark), vh_bool(cok));
                L = NULL;
            }
            if (!got) break;
            vh_seg++; vh_step = 0;
            mark = vh_ledger_mark();
            if (inj_at || inj_from) {
                for (long ck = 1; ck <= 16; ck++) {
                    long m0 = vh_ledger_mark();
                    vh_where = "ctor";
                    vh_call_begin();
                    if (inj_at) vh_fail_at = ck; else vh_fail_from = ck;
                    void *X = NULL;
                    if (K == 0) { qlist_t *x = qlist(ts ? QLIST_THREADSAFE : 0); X = x; if (x) x->free(x); }
                    else if (K == 1) { qqueue_t *x = qqueue(ts ? QQUEUE_THREADSAFE : 0); X = x; if (x) x->free(x); }
                    else if (K == 2) { qstack_t *x = qstack(ts ? QSTACK_THREADSAFE : 0); X = x; if (x) x->free(x); }
                    else { qgrow_t *x = qgrow(ts ? QGROW_THREADSAFE : 0); X = x; if (x) x->free(x); }
                    long nf = vh_failed;
                    vh_call_end();
                    vh_emit("{\"op\":\"ctor\",\"i\":0,\"v\":0,\"inj\":%ld,\"nfail\":%ld,\"ok\":%s,\"live\":%ld}", ck, nf, vh_bool(X != NULL), vh_live_since(m0));
                    if (nf == 0) break;
                }
            }
            if (K == 0) L = qlist(ts ? QLIST_THREADSAFE : 0);
            else if (K == 1) { Q = qqueue(ts ? QQUEUE_THREADSAFE : 0); L = Q ? Q->list : NULL; }
            else if (K == 2) { S = qstack(ts ? QSTACK_THREADSAFE : 0); L = S ? S->list : NULL; }
            else { G = qgrow(ts ? QGROW_THREADSAFE : 0); L = G ? G->list : NULL; }
            if (!L) return 2;
            vh_bprintf(&b, "{\"op\":\"reset\",\"i\":0,\"v\":0,\"vals\":[");
            for (int id = 1; id <= NV; id++) {
                vh_bprintf(&b, "%s[", id > 1 ? "," : "");
                for (size_t j = 0; j < VS[id]; j++) vh_bprintf(&b, "%s%d", j ? "," : "", VB[id][j]);
                vh_bprintf(&b, "]");
            }
            vh_bprintf(&b, "]}");
            vh_bflush(&b);
            continue;
        }
        int i = 0, v = 0;
        if (sscanf(line, "%31s %d %d", op, &i, &v) < 1) continue;
        vh_step++;
        vh_where = op;
        int inject = (inj_at || inj_from) && is_alloc_op(op);
        for (long k = 1;; k++) {
            if (inject && k > 300) inject = 0;      /* give up injecting: finish the operation normally */
            unsigned char *arg = NULL;
            if (v >= 1 && v <= NV) { arg = vh_malloc(VS[v] + 1); memcpy(arg, VB[v], VS[v]); }
            size_t asz = v ? VS[v] : 0;
            int ok = 1, rv = 0; long n = 0; size_t sz = 0; void *p = NULL;
            unsigned char *outb = NULL; long outn = -1; int walkids[4096]; int nwalk = -1;
            long lkb = VH_LOCK_BALANCE(), ovb = vh_overlap_copies, bfb = vh_badfree;
            vh_watchdog(6);
            errno = 0;
            vh_call_begin();
            if (inject) { if (inj_at) vh_fail_at = k; else vh_fail_from = k; }
            if (!strcmp(op, "addat")) ok = L->addat(L, i, arg, asz);
            else if (!strcmp(op, "addfirst")) ok = L->addfirst(L, arg, asz);
            else if (!strcmp(op, "addlast")) ok = L->addlast(L, arg, asz);
            else if (!strcmp(op, "getat")) {
                if (K == 1) p = Q->getat(Q, i, &sz, true); else if (K == 2) p = S->getat(S, i, &sz, true); else p = L->getat(L, i, &sz, true);
                ok = p != NULL;
            }
            else if (!strcmp(op, "getfirst")) { p = L->getfirst(L, &sz, true); ok = p != NULL; }
            else if (!strcmp(op, "getlast")) { p = L->getlast(L, &sz, true); ok = p != NULL; }
            else if (!strcmp(op, "popat")) {
                if (K == 1) p = Q->popat(Q, i, &sz); else if (K == 2) p = S->popat(S, i, &sz); else p = L->popat(L, i, &sz);
                ok = p != NULL;
            }
            else if (!strcmp(op, "popfirst")) { p = L->popfirst(L, &sz); ok = p != NULL; }
            else if (!strcmp(op, "poplast")) { p = L->poplast(L, &sz); ok = p != NULL; }
            else if (!strcmp(op, "removeat")) ok = L->removeat(L, i);
            else if (!strcmp(op, "removefirst")) ok = L->removefirst(L);
            else if (!strcmp(op, "removelast")) ok = L->removelast(L);
            else if (!strcmp(op, "reverse")) L->reverse(L);
            else if (!strcmp(op, "clear")) { if (K == 1) Q->clear(Q); else if (K == 2) S->clear(S); else if (K == 3) G->clear(G); else L->clear(L); }
            else if (!strcmp(op, "setsize")) { n = (long) (K == 1 ? Q->setsize(Q, (size_t) i) : K == 2 ? S->setsize(S, (size_t) i) : L->setsize(L, (size_t) i)); }
            else if (!strcmp(op, "toarray")) { sz = 12345; outb = K == 3 ? G->toarray(G, &sz) : L->toarray(L, &sz); ok = outb != NULL; n = (long) sz; outn = ok ? (long) sz : -1; }
            else if (!strcmp(op, "tostring")) {
                size_t exp = 0;
                for (qlist_obj_t *o = L->first; o; o = o->next) exp += o->size - (((char *) o->data)[o->size - 1] == 0);
                outb = (unsigned char *) (K == 3 ? G->tostring(G) : L->tostring(L)); ok = outb != NULL;
                /* the terminator's position is not told by the API: log strlen-independent exp+1 bytes if the block is that large */
                if (ok) { long bs = vh_block_size(outb); outn = (bs < 0 || bs >= (long) exp + 1) ? (long) exp + 1 : bs; n = (long) exp; }
            }
            else if (!strcmp(op, "walk")) {
                qlist_obj_t o; memset(&o, 0, sizeof o);
                int newmem = (vh_step & 1);
                nwalk = 0;
                if (ts) L->lock(L);
                int again = 0;
                for (;;) {
                    errno = 0;
                    if (L->getnext(L, &o, newmem)) {
                        if (nwalk < 4096) walkids[nwalk] = vid(o.data, o.size);
                        nwalk++;
                        if (newmem) free(o.data);
                        continue;
                    }
                    /* a step that could not allocate its copy has no effect: the same call again (nothing fails any more) delivers that
                     * element, and the walk goes on to the end */
                    if (vh_failed > 0 && errno != ENOENT && again < 2) { again++; vh_fail_at = 0; vh_fail_from = 0; continue; }
                    break;
                }
                ok = (errno == ENOENT);
                if (ts) L->unlock(L);
                n = ok ? nwalk : 0;
            }
            else if (!strcmp(op, "debug")) { ok = K == 1 ? Q->debug(Q, devnull) : K == 2 ? S->debug(S, devnull) : K == 3 ? G->debug(G, devnull) : L->debug(L, devnull); }
            else if (!strcmp(op, "sizes")) {
                rv = (int) (K == 1 ? Q->size(Q) : K == 2 ? S->size(S) : K == 3 ? G->size(G) : L->size(L));
                n = (long) (K == 3 ? G->datasize(G) : L->datasize(L));
            }
            else if (!strcmp(op, "push")) {
                /* use the typed front-end matching the value's shape, so every wrapper is exercised */
                if (K == 1) ok = is_cstr(v) ? Q->pushstr(Q, (char *) arg) : (asz == 8 ? Q->pushint(Q, *(int64_t *) VB[v]) : Q->push(Q, arg, asz));
                else if (K == 2) ok = is_cstr(v) ? S->pushstr(S, (char *) arg) : (asz == 8 ? S->pushint(S, *(int64_t *) VB[v]) : S->push(S, arg, asz));
                else { if (is_nonul(v)) { arg[asz] = 0; ok = (vh_step & 1) ? G->addstr(G, (char *) arg) : G->addstrf(G, "%s", (char *) arg); } else ok = G->add(G, arg, asz); }
            }
            else if (!strcmp(op, "pop") || !strcmp(op, "get")) {
                int pop = op[0] == 'p';
                qlist_obj_t *f = L->first;
                int fid = f ? vid(f->data, f->size) : 0;
                if (f && fid > 0 && is_cstr(fid)) {
                    p = K == 1 ? (pop ? Q->popstr(Q) : Q->getstr(Q)) : (pop ? S->popstr(S) : S->getstr(S));
                    sz = p ? strlen(p) + 1 : 0;
                } else if (f && f->size == 8 && (vh_step & 1)) {
                    int64_t x = K == 1 ? (pop ? Q->popint(Q) : Q->getint(Q)) : (pop ? S->popint(S) : S->getint(S));
                    /* the int front-ends cannot report failure: under injection treat 0 with a failed allocation as failure */
                    if (!(vh_failed > 0 && x == 0)) { p = vh_malloc(8); memcpy(p, &x, 8); sz = 8; }
                } else {
                    p = K == 1 ? (pop ? Q->pop(Q, &sz) : Q->get(Q, &sz, true)) : (pop ? S->pop(S, &sz) : S->get(S, &sz, true));
                }
                ok = p != NULL;
            }
            int e = ok ? 0 : vh_ecls(errno);
            long nfail = vh_failed;
            vh_call_end();
            alarm(0);
            if (arg) { memset(arg, 0xA5, asz + 1); vh_free(arg); }      /* scribble and release the caller's buffer (C12) */
            if (p) { rv = vid(p, sz); n = (long) sz; keep(p, rv, sz); }
            vh_bprintf(&b, "{\"op\":\"%s\",\"i\":%d,\"v\":%d,\"inj\":%ld,\"nfail\":%ld,\"ok\":%s,\"err\":%d,\"rv\":%d,\"n\":%ld,\"bytes\":[",
                       op, i, v, inject ? k : 0L, nfail, vh_bool(ok), e, rv, n);
            if (outb && outn >= 0) for (long j = 0; j < outn; j++) vh_bprintf(&b, "%s%d", j ? "," : "", outb[j]);
            if (nwalk >= 0) for (int j = 0; j < nwalk && j < 4096; j++) vh_bprintf(&b, "%s%d", j ? "," : "", walkids[j]);
            if (outb) free(outb);
            vh_bprintf(&b, "],\"seq\":[");
            int first = 1; long cnt = 0;
            for (qlist_obj_t *o = L->first; o && cnt < 5000; o = o->next, cnt++) { vh_bprintf(&b, "%s%d", first ? "" : ",", vid(o->data, o->size)); first = 0; }
            vh_bprintf(&b, "],\"rseq\":[");
            first = 1; cnt = 0;
            for (qlist_obj_t *o = L->last; o && cnt < 5000; o = o->prev, cnt++) { vh_bprintf(&b, "%s%d", first ? "" : ",", vid(o->data, o->size)); first = 0; }
            vh_bprintf(&b, "],\"max\":%zu,\"num\":%zu,\"dsum\":%zu,\"lkd\":%ld,\"ovl\":%ld,\"bf\":%ld}", L->max, L->num, L->datasum,
                       VH_LOCK_BALANCE() - lkb, vh_overlap_copies - ovb, vh_badfree - bfb);
            vh_bflush(&b);
            if (!inject || nfail == 0 || ok ) break;
        }
    }
    vh_close();
    exit(0);
}
