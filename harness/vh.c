#include "vh.h"
#include <stdarg.h>
#include <stdlib.h>
#include <string.h>
#include <errno.h>
#include <unistd.h>
#include <fcntl.h>
#include <signal.h>
#include <pthread.h>

/* ================================================================== event log */
static int vh_fd = 1;
const char *vh_where = "";
long vh_seg = 0, vh_step = 0;

void vh_open(const char *path) {
    vh_fd = open(path, O_WRONLY | O_CREAT | O_APPEND | (getenv("VH_APPEND") ? 0 : O_TRUNC), 0644);
    if (vh_fd < 0) { perror(path); _exit(2); }
}
void vh_close(void) { if (vh_fd > 2) close(vh_fd); }

static void vh_write_all(const char *p, size_t n) {
    while (n > 0) {
        ssize_t w = write(vh_fd, p, n);
        if (w <= 0) { if (errno == EINTR) continue; _exit(2); }
        p += w; n -= (size_t) w;
    }
}

void vh_emit(const char *fmt, ...) {
    char stackbuf[8192];
    va_list ap;
    va_start(ap, fmt);
    int n = vsnprintf(stackbuf, sizeof stackbuf - 1, fmt, ap);
    va_end(ap);
    if (n < 0) return;
    if ((size_t) n < sizeof stackbuf - 1) {
        stackbuf[n] = '\n';
        vh_write_all(stackbuf, (size_t) n + 1);
        return;
    }
    char *big = vh_malloc((size_t) n + 2);
    va_start(ap, fmt);
    vsnprintf(big, (size_t) n + 1, fmt, ap);
    va_end(ap);
    big[n] = '\n';
    vh_write_all(big, (size_t) n + 1);
    vh_free(big);
}

void vh_bprintf(vh_buf *b, const char *fmt, ...) {
    va_list ap;
    for (;;) {
        if (b->cap - b->n < 64) {
            size_t nc = b->cap ? b->cap * 2 : 4096;
            char *np = vh_malloc(nc);
            if (b->p) { memcpy(np, b->p, b->n); vh_free(b->p); }
            b->p = np; b->cap = nc;
        }
        va_start(ap, fmt);
        int n = vsnprintf(b->p + b->n, b->cap - b->n, fmt, ap);
        va_end(ap);
        if (n >= 0 && (size_t) n < b->cap - b->n) { b->n += (size_t) n; return; }
        size_t nc = b->cap * 2 + (n > 0 ? (size_t) n : 0);
        char *np = vh_malloc(nc);
        memcpy(np, b->p, b->n); vh_free(b->p);
        b->p = np; b->cap = nc;
    }
}
void vh_breset(vh_buf *b) { b->n = 0; }
void vh_bflush(vh_buf *b) {
    vh_bprintf(b, "\n");
    vh_write_all(b->p, b->n);
    b->n = 0;
}

int vh_ecls(int e) {
    return e == 0 ? 0 : e == ENOENT ? 1 : e == EINVAL ? 2 : e == ERANGE ? 3 : e == ENOBUFS ? 4
         : e == ENOMEM ? 5 : e == EEXIST ? 6 : e == EFAULT ? 7 : 9;
}
const char *vh_bool(int b) { return b ? "true" : "false"; }

static uint32_t rng = 2463534242u;
void vh_srand(uint32_t s) { rng = s ? s : 88172645u; }
uint32_t vh_rand(void) { rng ^= rng << 13; rng ^= rng >> 17; rng ^= rng << 5; return rng; }

/* ================================================================== watchdog / crash */
static void on_alarm(int sig) {
    (void) sig;
    char b[256];
    int n = snprintf(b, sizeof b, "{\"op\":\"timeout\",\"seg\":%ld,\"step\":%ld,\"where\":\"%s\"}\n", vh_seg, vh_step, vh_where);
    if (n > 0) vh_write_all(b, (size_t) n);
    _exit(3);
}
static void on_crash(int sig) {
    char b[256];
    int n = snprintf(b, sizeof b, "{\"op\":\"crash\",\"sig\":%d,\"seg\":%ld,\"step\":%ld,\"where\":\"%s\"}\n", sig, vh_seg, vh_step, vh_where);
    if (n > 0) vh_write_all(b, (size_t) n);
    _exit(4);
}
void vh_watchdog(int seconds) { signal(SIGALRM, on_alarm); alarm((unsigned) seconds); }
void vh_install_handlers(void) {
#ifndef VH_SANITIZER
    static char altstack[1 << 16];
    stack_t ss; ss.ss_sp = altstack; ss.ss_size = sizeof altstack; ss.ss_flags = 0;
    sigaltstack(&ss, NULL);
    struct sigaction sa; memset(&sa, 0, sizeof sa);
    sa.sa_handler = on_crash; sa.sa_flags = SA_ONSTACK;
    sigaction(SIGSEGV, &sa, NULL); sigaction(SIGBUS, &sa, NULL);
    sigaction(SIGABRT, &sa, NULL); sigaction(SIGFPE, &sa, NULL);
#endif
}

/* ================================================================== ledger */
int vh_ledger_on = 0, vh_quarantine = 0;
long vh_call_allocs = 0, vh_fail_at = 0, vh_fail_from = 0, vh_failed = 0, vh_badfree = 0;
long vh_overlap_copies = 0;
volatile long vh_locks = 0, vh_unlocks = 0, vh_usleeps = 0, vh_unlock_failures = 0;
volatile int vh_force_busy = 0;
void (*vh_hook_before_lock)(void) = NULL;
void (*vh_hook_locked)(void) = NULL;
void (*vh_hook_unlocked)(void) = NULL;
void (*vh_hook_lock_failed)(void) = NULL;
void (*vh_hook_unlock_failed)(void) = NULL;

#ifdef VH_SANITIZER
/* sanitizer builds: no link-time wrapping; the sanitizer is the monitor */
void *vh_malloc(size_t n) { return malloc(n ? n : 1); }
void vh_free(void *p) { free(p); }
void vh_call_begin(void) { vh_call_allocs = 0; vh_failed = 0; }
void vh_call_end(void) { vh_fail_at = vh_fail_from = 0; }
long vh_live_blocks(void) { return 0; }
long vh_live_bytes(void) { return 0; }
long vh_ledger_mark(void) { return 0; }
long vh_live_since(long m) { (void) m; return 0; }
int vh_is_live(const void *p) { (void) p; return 1; }
long vh_block_size(const void *p) { (void) p; return -1; }
#else
void *__real_malloc(size_t);
void *__real_calloc(size_t, size_t);
void *__real_realloc(void *, size_t);
void __real_free(void *);
int __real_pthread_mutex_trylock(pthread_mutex_t *);
int __real_pthread_mutex_lock(pthread_mutex_t *);
int __real_pthread_mutex_unlock(pthread_mutex_t *);
int __real_usleep(useconds_t);
void *__real_memcpy(void *, const void *, size_t);
char *__real_strcpy(char *, const char *);
char *__real_strncpy(char *, const char *, size_t);

void *vh_malloc(size_t n) { void *p = __real_malloc(n ? n : 1); if (!p) _exit(2); return p; }
void vh_free(void *p) { __real_free(p); }

#define LSZ (1u << 21)
typedef struct { void *p; size_t size; long serial; int state; } lent;   /* state 0 empty 1 live 2 freed(tomb/quarantine) */
static lent *ltab;
static long lserial = 0, llive = 0, lbytes = 0;
static pthread_mutex_t lmx = PTHREAD_MUTEX_INITIALIZER;
static void llock(void) { __real_pthread_mutex_lock(&lmx); }
static void lunlock(void) { __real_pthread_mutex_unlock(&lmx); }

static lent *lfind(const void *p, int create) {
    if (!ltab) { ltab = __real_calloc(LSZ, sizeof(lent)); if (!ltab) _exit(2); }
    uintptr_t h = ((uintptr_t) p >> 4) * 0x9E3779B97F4A7C15ull;
    size_t i = (size_t) (h >> 40) & (LSZ - 1);
    lent *tomb = NULL;
    for (size_t k = 0; k < LSZ; k++, i = (i + 1) & (LSZ - 1)) {
        if (ltab[i].state == 0) return create ? (tomb ? tomb : &ltab[i]) : NULL;
        if (ltab[i].p == p) return &ltab[i];
        if (ltab[i].state == 2 && !tomb && !vh_quarantine) tomb = &ltab[i];
    }
    return create ? tomb : NULL;
}
static void ladd(void *p, size_t n) {
    if (!p || !vh_ledger_on) return;
    llock();
    lent *e = lfind(p, 1);
    if (e) { e->p = p; e->size = n; e->serial = ++lserial; e->state = 1; llive++; lbytes += (long) n; }
    lunlock();
}
/* returns 1 if the block was live in the ledger, 0 if unknown (foreign), -1 if it was already freed */
static int ldel(void *p) {
    if (!vh_ledger_on && !ltab) return 0;
    llock();
    lent *e = lfind(p, 0);
    int r = 0;
    if (e && e->state == 1) { e->state = 2; llive--; lbytes -= (long) e->size; r = 1; }
    else if (e && e->state == 2 && vh_quarantine) r = -1;
    lunlock();
    return r;
}
long vh_live_blocks(void) { return llive; }
long vh_live_bytes(void) { return lbytes; }
long vh_ledger_mark(void) { return lserial; }
long vh_live_since(long mark) {
    long n = 0;
    if (!ltab) return 0;
    for (size_t i = 0; i < LSZ; i++) if (ltab[i].state == 1 && ltab[i].serial > mark) n++;
    return n;
}
int vh_is_live(const void *p) { if (!ltab) return 0; lent *e = lfind(p, 0); return e && e->state == 1; }
long vh_block_size(const void *p) { if (!ltab) return -1; lent *e = lfind(p, 0); return (e && e->state == 1) ? (long) e->size : -1; }

void vh_call_begin(void) { vh_call_allocs = 0; vh_failed = 0; }
void vh_call_end(void) { vh_fail_at = vh_fail_from = 0; }

static int should_fail(void) {
    long k = __sync_add_and_fetch(&vh_call_allocs, 1);
    if ((vh_fail_at > 0 && k == vh_fail_at) || (vh_fail_from > 0 && k >= vh_fail_from)) {
        vh_failed++; errno = ENOMEM; return 1;
    }
    return 0;
}
void *__wrap_malloc(size_t n) {
    if (should_fail()) return NULL;
    void *p = __real_malloc(n);
    ladd(p, n);
    return p;
}
void *__wrap_calloc(size_t a, size_t b) {
    if (should_fail()) return NULL;
    void *p = __real_calloc(a, b);
    ladd(p, a * b);
    return p;
}
void __wrap_free(void *p) {
    if (!p) return;
    int r = ldel(p);
    if (r < 0) { vh_badfree++; return; }
    if (r == 1 && vh_quarantine) {
        lent *e = lfind(p, 0);
        memset(p, 0xDD, e ? e->size : 0);      /* poison, never release: a later use reads garbage, a second free is seen */
        return;
    }
    __real_free(p);
}
void *__wrap_realloc(void *p, size_t n) {
    if (should_fail()) return NULL;
    if (p && vh_quarantine && vh_is_live(p)) {
        /* move always, so stale pointers into the old block are exposed */
        long osz = vh_block_size(p);
        if (n == 0) { __wrap_free(p); return NULL; }
        void *q = __real_malloc(n);
        if (!q) return NULL;
        __real_memcpy(q, p, (size_t) osz < n ? (size_t) osz : n);
        ladd(q, n);
        __wrap_free(p);
        return q;
    }
    int known = p ? ldel(p) : 0;
    void *q = __real_realloc(p, n);
    if (q) ladd(q, n);
    else if (known == 1 && n != 0) ladd(p, 0);   /* failed realloc leaves the old block live */
    return q;
}
char *__wrap_strdup(const char *s) {
    size_t n = strlen(s) + 1;
    char *p = __wrap_malloc(n);
    if (p) __real_memcpy(p, s, n);
    return p;
}
char *__wrap_strndup(const char *s, size_t m) {
    size_t n = strnlen(s, m);
    char *p = __wrap_malloc(n + 1);
    if (p) { __real_memcpy(p, s, n); p[n] = 0; }
    return p;
}

/* ---- overlap monitor ---- */
static int overlaps(const void *a, const void *b, size_t n) {
    uintptr_t x = (uintptr_t) a, y = (uintptr_t) b;
    return n > 0 && x != y && ((x < y && x + n > y) || (y < x && y + n > x));
}
void *__wrap_memcpy(void *d, const void *s, size_t n) {
    if (overlaps(d, s, n)) vh_overlap_copies++;
    return memmove(d, s, n);
}
char *__wrap_strcpy(char *d, const char *s) {
    size_t n = strlen(s) + 1;
    if (overlaps(d, s, n)) vh_overlap_copies++;
    memmove(d, s, n);
    return d;
}
char *__wrap_strncpy(char *d, const char *s, size_t m) {
    size_t n = strnlen(s, m);
    if (overlaps(d, s, m)) vh_overlap_copies++;
    memmove(d, s, n);
    if (n < m) memset(d + n, 0, m - n);
    return d;
}

/* ---- lock tracer ---- */
int __wrap_pthread_mutex_trylock(pthread_mutex_t *m) {
    if (vh_hook_before_lock) vh_hook_before_lock();
    if (vh_force_busy > 0) { vh_force_busy--; if (vh_hook_lock_failed) vh_hook_lock_failed(); return EBUSY; }
    int r = __real_pthread_mutex_trylock(m);
    if (r == 0) { __sync_add_and_fetch(&vh_locks, 1); if (vh_hook_locked) vh_hook_locked(); }
    else if (vh_hook_lock_failed) vh_hook_lock_failed();
    return r;
}
int __wrap_pthread_mutex_lock(pthread_mutex_t *m) {
    if (vh_hook_before_lock) vh_hook_before_lock();
    int r = __real_pthread_mutex_lock(m);
    if (r == 0) { __sync_add_and_fetch(&vh_locks, 1); if (vh_hook_locked) vh_hook_locked(); }
    return r;
}
int __wrap_pthread_mutex_unlock(pthread_mutex_t *m) {
    int r = __real_pthread_mutex_unlock(m);
    if (r == 0) { __sync_add_and_fetch(&vh_unlocks, 1); if (vh_hook_unlocked) vh_hook_unlocked(); }
    else { __sync_add_and_fetch(&vh_unlock_failures, 1); if (vh_hook_unlock_failed) vh_hook_unlock_failed(); }
    return r;
}
int __wrap_usleep(useconds_t u) { (void) u; __sync_add_and_fetch(&vh_usleeps, 1); return 0; }
#endif
