/* Replays operation scripts on the real qlisttbl and records typed ndjson events for ListTblTrace.tla.
 * usage: replay_listtbl <script> <trace> <options: u c t f letters or -> <profile> <flags> <scratchfile>
 *   options: u = UNIQUE, c = CASEINSENSITIVE, t = INSERTTOP, f = LOOKUPFORWARD
 *   flags: t = QLISTTBL_THREADSAFE, a/f = allocation failure injection */
#include "qlibc.h"
#include "vh.h"
#include <stdlib.h>
#include <string.h>
#include <strings.h>
#include <errno.h>
#include <inttypes.h>

static const char *KN0[] = {"", "Alpha", "Beta", "alpha", "beta"};
/* profiles 1, 2: the two lower-case names have EQUAL 32-bit murmur hashes (the table caches the hash and compares it first);
 * same order and same case pairs as the first set */
static const char *KN1[] = {"", "C178039", "C290156", "c178039", "c290156"};
/* every third segment: names that differ only in non-letter bytes 0x20 apart ('@' and '`', '[' and '{', '^' and '~', '_' and DEL) -
 * equal only to a comparison that folds case by masking a bit; same order and same case pairs as the first set */
static const char *KN2[] = {"", "X@[^_Y", "X`{~\x7fY", "x@[^_y", "x`{~\x7fy"};
#define KN (altnames ? KN2 : profile ? KN1 : KN0)
static int profile, altnames, probe_bad;
/* the integer stored through putint / read through getint changes from segment to segment and includes the extremes of int64 */
static const int64_t IVALS[4] = {-12345, INT64_MIN, INT64_MAX, -1000000000000000000LL};
static int64_t INTVAL = -12345;
static char intstr[32] = "-12345";
/* string values; profile 1 uses bytes that need encoding in the save file */
static const char *valstr(int v) {
    static const char *P0[] = {"", "v1", "v two", "-12345", ""};
    static const char *P1[] = {"", " lead and trail ", "a%3D=b&c\n\x80\xfe\t#x", "-12345", "%"};
    static const char *P2[] = {"", "=", "line1\nline2\r\n", "-12345", "# not a comment"};
    if (v < 1 || v > 4) return "";
    if (v == 3) return intstr;
    return profile == 1 ? P1[v] : profile == 2 ? P2[v] : P0[v];
}
static int kid(const char *s) { if (!s) return 0; for (int i = 1; i <= 4; i++) if (!strcmp(s, KN[i])) return i; return -1; }
static int vid(const void *s, size_t n) {
    if (!s) return 0;
    for (int i = 1; i <= 4; i++) if (n == strlen(valstr(i)) + 1 && !memcmp(s, valstr(i), n)) return i;
    return -1;
}
static struct { void *p; int id; size_t n; } kept[64];
static int nkept;
static int copybad;        /* copies handed to removeobj that were altered or released by the library */
static void keep(void *p, int id, size_t n) {
    if (!p) return;
    if (nkept < 64 && id > 0) { kept[nkept].p = p; kept[nkept].id = id; kept[nkept].n = n; nkept++; } else free(p);
}
static int check_kept(void) {
    int ok = 1;
    for (int k = 0; k < nkept; k++) { if (vid(kept[k].p, kept[k].n) != kept[k].id) ok = 0; free(kept[k].p); }
    nkept = 0;
    if (copybad) { ok = 0; copybad = 0; }
    return ok;
}
static void pairs(vh_buf *b, qlisttbl_t *t, int backward) {
    int f = 1, cnt = 0;
    for (qlisttbl_obj_t *p = backward ? t->last : t->first; p && cnt < 100000; p = backward ? p->prev : p->next, cnt++) {
        vh_bprintf(b, "%s[%d,%d]", f ? "" : ",", kid(p->name), vid(p->data, p->size)); f = 0;
    }
}

int main(int argc, char **argv) {
    if (argc < 7) return 2;
    int opts = 0;
    if (strchr(argv[3], 'u')) opts |= QLISTTBL_UNIQUE;
    if (strchr(argv[3], 'c')) opts |= QLISTTBL_CASEINSENSITIVE;
    if (strchr(argv[3], 't')) opts |= QLISTTBL_INSERTTOP;
    if (strchr(argv[3], 'f')) opts |= QLISTTBL_LOOKUPFORWARD;
    int ci = (opts & QLISTTBL_CASEINSENSITIVE) != 0;
    profile = atoi(argv[4]);
    int ts = strchr(argv[5], 't') != NULL, inj_at = strchr(argv[5], 'a') != NULL, inj_from = strchr(argv[5], 'f') != NULL;
    const char *scratch = argv[6];
    if (ts) opts |= QLISTTBL_THREADSAFE;
    FILE *in = fopen(argv[1], "r");
    if (!in) return 2;
    FILE *devnull = fopen("/dev/null", "w");
    vh_open(argv[2]);
    vh_install_handlers();
    vh_ledger_on = 1; vh_quarantine = 1;
    qlisttbl_t *T = NULL;
    char line[256], op[32];
    vh_buf b = {0}, ob = {0};
    long mark = 0;
    while (1) {
        char *got = fgets(line, sizeof line, in);
        if (!got || !strncmp(line, "reset", 5)) {
            if (T) {
                T->free(T);
                int cok = check_kept();
                vh_emit("{\"op\":\"free\",\"k\":0,\"v\":0,\"live\":%ld,\"copies_ok\":%s}", vh_live_since(mark), vh_bool(cok));
                T = NULL;
            }
            if (!got) break;
            vh_seg++; altnames = (vh_seg % 3 == 2); vh_step = 0; INTVAL = IVALS[vh_seg % 4]; snprintf(intstr, sizeof intstr, "%" PRId64, INTVAL);
            mark = vh_ledger_mark();
            if (inj_at || inj_from) {
                /* constructor under allocation failure: NULL and nothing left allocated, or a working object */
                for (long ck = 1; ck <= 16; ck++) {
                    long m0 = vh_ledger_mark();
                    vh_where = "ctor";
                    vh_call_begin();
                    if (inj_at) vh_fail_at = ck; else vh_fail_from = ck;
                    T = qlisttbl(opts);
                    long nf = vh_failed;
                    vh_call_end();
                    int cok = T != NULL;
                    if (T) { T->free(T); T = NULL; }
                    vh_emit("{\"op\":\"ctor\",\"k\":0,\"v\":0,\"inj\":%ld,\"nfail\":%ld,\"ok\":%s,\"live\":%ld}", ck, nf, vh_bool(cok), vh_live_since(m0));
                    if (nf == 0) break;
                }
            }

            T = qlisttbl(opts);
            if (!T) return 2;
            vh_emit("{\"op\":\"reset\",\"k\":0,\"v\":0}");
            continue;
        }
        int k = 0, v = 0;
        if (sscanf(line, "%31s %d %d", op, &k, &v) < 1) continue;
        if (k < 0 || k > 4) continue;
        vh_step++;
        vh_where = op;
        int inject = (inj_at || inj_from) && (!strcmp(op, "put") || !strcmp(op, "get") || !strcmp(op, "getmulti") || !strcmp(op, "walk")
                                              || !strcmp(op, "walkname") || !strcmp(op, "saveload"));
        for (long kk = 1;; kk++) {
            if (inject && kk > 300) inject = 0;      /* give up injecting: finish the operation normally */
            int ok = 1; long n = 0, leak = 0;
            char *name = NULL, *val = NULL;
            char *name0 = NULL; size_t koff = ((size_t) (((uint32_t) vh_step * 2654435761u) >> 30));        /* keys at every alignment modulo 4 */
            if (k) { name0 = vh_malloc(strlen(KN[k]) + 1 + koff); name = name0 + koff; strcpy(name, KN[k]); }
            if (v) { val = vh_malloc(strlen(valstr(v)) + 1); strcpy(val, valstr(v)); }
            long lkb = VH_LOCK_BALANCE(), ovb = vh_overlap_copies, bfb = vh_badfree;
            int newmem = (int) (vh_step & 1);
            ob.n = 0; vh_bprintf(&ob, "%s", "");
            vh_watchdog(6);
            errno = 0;
            vh_call_begin();
            if (inject) { if (inj_at) vh_fail_at = kk; else vh_fail_from = kk; }
            if (!strcmp(op, "put")) {
                int form = (int) (vh_step % 3);
                if (v == 3 && form == 0) ok = T->putint(T, name, INTVAL);
                else if (form == 1) ok = T->putstrf(T, name, "%s", val);
                else if (form == 2) ok = T->put(T, name, val, strlen(val) + 1);
                else ok = T->putstr(T, name, val);
            } else if (!strcmp(op, "get")) {
                size_t sz = 0; char *d;
                int form = (int) ((vh_step >> 1) % 3);
                /* what is stored decides whether the int getter is meaningful */
                if (form == 0) { d = T->get(T, name, &sz, newmem); }
                else if (form == 1) { d = T->getstr(T, name, newmem); sz = d ? strlen(d) + 1 : 0; }
                else {
                    char *cur = T->getstr(T, name, false);
                    if (cur && !strcmp(cur, valstr(3))) {
                        int64_t x = T->getint(T, name);
                        d = NULL;
                        if (!(vh_failed > 0 && x == 0)) { d = vh_malloc(32); sz = (size_t) sprintf(d, "%" PRId64, x) + 1; }
                        ok = d != NULL; n = vid(d, sz); if (d) vh_free(d);
                        goto done_get;
                    }
                    d = T->get(T, name, &sz, newmem);
                }
                ok = d != NULL; n = vid(d, sz);
                if (d && newmem) keep(d, (int) n, sz);
            done_get:;
            } else if (!strcmp(op, "getmulti")) {
                size_t cnt = 777;
                qlisttbl_data_t *m = T->getmulti(T, name, newmem, &cnt);
                ok = m != NULL; n = (long) cnt;
                if (m) for (size_t i = 0; i < cnt; i++) vh_bprintf(&ob, "%s[%d,%d]", i ? "," : "", k, vid(m[i].data, m[i].size));
                if (m) T->freemulti(m);
            } else if (!strcmp(op, "remove")) { n = (long) T->remove(T, name); }
            else if (!strcmp(op, "rmwalk")) {
                qlisttbl_obj_t o; memset(&o, 0, sizeof o);
                T->lock(T);
                /* as in the documentation of removeobj: the object may be a copy (newmem) - it stays the caller's after the removal */
                while (T->getnext(T, &o, NULL, newmem)) {
                    int hit = ci ? !strcasecmp(o.name, name) : !strcmp(o.name, name);
                    int kk = kid(o.name), vv = vid(o.data, o.size);
                    if (hit) { T->removeobj(T, &o); n++; }
                    if (newmem) {
                        if (kid(o.name) != kk || vid(o.data, o.size) != vv) copybad++;       /* the caller's copies were touched */
                        keep(o.data, vv, o.size); free(o.name);
                    }
                }
                T->unlock(T);
            } else if (!strcmp(op, "walk") || !strcmp(op, "walkname")) {
                qlisttbl_obj_t o; memset(&o, 0, sizeof o);
                const char *f = !strcmp(op, "walk") ? NULL : name;
                if (ts) T->lock(T);
                while (T->getnext(T, &o, f, newmem)) {
                    vh_bprintf(&ob, "%s[%d,%d]", n ? "," : "", kid(o.name), vid(o.data, o.size)); n++;
                    if (newmem) { free(o.name); free(o.data); }
                    if (n > 100000) break;
                }
                ok = (errno == ENOENT);
                if (ts) T->unlock(T);
                if (!ok) n = 0;
            } else if (!strcmp(op, "size")) n = (long) T->size(T);
            else if (!strcmp(op, "sort")) T->sort(T);
            else if (!strcmp(op, "debug")) ok = T->debug(T, devnull);
            else if (!strcmp(op, "clear")) T->clear(T);
            else if (!strcmp(op, "saveload")) {
                long m0 = vh_ledger_mark();
                bool enc = !(profile == 0 && (vh_step & 1));
                char sep = (vh_step & 2) ? '=' : ':';
                /* the I/O failure outcomes first: a path that cannot be opened is refused, nothing changes, no lock is kept */
                int badio = 0;
                if (!inject) {
                    if (T->save(T, "/nonexistent-directory/for/qlisttbl/save", sep, enc)) badio++;
                    qlisttbl_t *W = qlisttbl(opts & ~QLISTTBL_THREADSAFE);
                    if (W) { if (W->load(W, "/nonexistent-directory/for/qlisttbl/load", sep, enc) > 0 || W->size(W) != 0) badio++; W->free(W); }
                }
                bool sok = T->save(T, scratch, sep, enc) && !badio;
                qlisttbl_t *U = qlisttbl(opts & ~QLISTTBL_THREADSAFE);
                long cnt = -1;
                if (U) {
                    cnt = (long) U->load(U, scratch, sep, enc);
                    if (!inject && cnt >= 0) {
                        /* loading the same file once more: the same number of entries is loaded again (they replace or follow the first lot) */
                        qlisttbl_t *W2 = qlisttbl(opts & ~QLISTTBL_THREADSAFE);
                        if (W2) { long c1 = (long) W2->load(W2, scratch, sep, enc), c2 = (long) W2->load(W2, scratch, sep, enc); if (c1 != cnt || c2 != cnt) badio++; W2->free(W2); }
                    }
                    /* later operations behave normally, whatever the load reported: with injection switched off a new entry goes to
                     * the end this table was configured to insert at (load appends in file order by overriding that option for a while) */
                    {
                        long fa = vh_fail_at, ff = vh_fail_from; vh_fail_at = 0; vh_fail_from = 0;
                        size_t before = U->size(U);
                        bool pok = U->putstr(U, "zz-probe-after-load", "p");
                        qlisttbl_obj_t *pl = (opts & QLISTTBL_INSERTTOP) ? U->first : U->last;
                        probe_bad = !(pok && pl && !strcmp(pl->name, "zz-probe-after-load") && U->size(U) == before + 1);
                        if (pok) U->remove(U, "zz-probe-after-load");
                        vh_fail_at = fa; vh_fail_from = ff;
                    }
                    int f = 1;
                    for (qlisttbl_obj_t *p = U->first; p; p = p->next) { vh_bprintf(&ob, "%s[%d,%d]", f ? "" : ",", kid(p->name), vid(p->data, p->size)); f = 0; }
                    ok = sok && !badio && cnt >= 0 && (vh_failed == 0 || (size_t) cnt == T->size(T));
                    U->free(U);
                } else ok = 0;
                n = cnt;
                leak = vh_live_since(m0);
                if (!ok) { n = 0; }
            }
            int e = ok ? 0 : vh_ecls(errno);
            long nfail = vh_failed;
            vh_call_end();
            alarm(0);
            if (name) { memset(name, '#', strlen(name)); vh_free(name0); }
            if (val) { memset(val, '#', strlen(val)); vh_free(val); }
            vh_bprintf(&b, "{\"op\":\"%s\",\"k\":%d,\"v\":%d,\"inj\":%ld,\"nfail\":%ld,\"ok\":%s,\"err\":%d,\"n\":%ld,\"out\":[%s],\"ents\":[",
                       op, k, v, inject ? kk : 0L, nfail, vh_bool(ok), e, n, (ok || !inject) ? ob.p : "");
            pairs(&b, T, 0);
            vh_bprintf(&b, "],\"rents\":[");
            pairs(&b, T, 1);
            vh_bprintf(&b, "],\"num\":%zu,\"leak\":%ld,\"lkd\":%ld,\"ovl\":%ld,\"bf\":%ld}", T->num, leak, VH_LOCK_BALANCE() - lkb,
                       vh_overlap_copies - ovb, vh_badfree - bfb);
            vh_bflush(&b);
            if (!strcmp(op, "saveload")) {
                vh_bprintf(&b, "{\"op\":\"afterload\",\"k\":0,\"v\":0,\"inj\":%ld,\"nfail\":0,\"ok\":%s,\"err\":0,\"n\":0,\"out\":[],\"ents\":[", inject ? kk : 0L, vh_bool(!probe_bad));
                pairs(&b, T, 0);
                vh_bprintf(&b, "],\"rents\":[");
                pairs(&b, T, 1);
                vh_bprintf(&b, "],\"num\":%zu,\"leak\":0,\"lkd\":0,\"ovl\":0,\"bf\":0}", T->num);
                vh_bflush(&b);
                probe_bad = 0;
            }
            if (!inject || nfail == 0 || ok ) break;
        }
    }
    vh_close();
    exit(0);
}
