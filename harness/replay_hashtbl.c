/* Replays operation scripts on the real qhashtbl and records typed ndjson events for HashTblTrace.tla.
 * usage: replay_hashtbl <script> <trace> <range> <nkeys> <homes: h1,h2,.. | -> <flags>
 *   homes given: key strings are searched so that qhashmurmur3_32(key) % range equals the prescribed slot;
 *   "-": keys are "key-<id>" variations and their home is whatever the library's hash says.
 *   flags: t = QHASHTBL_THREADSAFE, a/f = allocation failure injection */
#include "qlibc.h"
#include "vh.h"
#include <stdlib.h>
#include <string.h>
#include <errno.h>
#include <inttypes.h>

static int R, NK;
static char **kn; static int *khome;
/* the integer stored through putint / read through getint changes from segment to segment and includes the extremes of int64 */
static const int64_t IVALS[4] = {-9876543210LL, INT64_MIN, INT64_MAX, -1000000000000000000LL};
static int64_t INTVAL = -9876543210LL;
static size_t mkval(unsigned char *b, int v) {
    switch (v) {
    case 1: memcpy(b, "one", 4); return 4;
    case 2: memcpy(b, "a\0b\xff", 4); return 4;
    case 3: return (size_t) sprintf((char *) b, "%" PRId64, INTVAL) + 1;
    case 4: return 0;
    case 5: memcpy(b, "a\0c\xfe", 4); return 4;      /* same size as 2 and equal up to the first NUL */
    case 6: memcpy(b, "on", 2); return 2;              /* a proper prefix of value 1 */
    case 7: for (int i = 0; i < 1024; i++) b[i] = (unsigned char) ('a' + (i * 5 + i / 26) % 26); b[1024] = 0; return 1025;   /* 1024 characters: the size of the formatting scratch buffer */
    default: b[0] = (unsigned char) v; return 1;
    }
}
static int vid(const void *d, size_t n) {
    if (!d) return 0;
    unsigned char t[1100];
    for (int v = 1; v <= 7; v++) { size_t tn = mkval(t, v); if (tn == n && !memcmp(d, t, n)) return v; }
    return -1;
}
static int kid(const char *s) {
    if (!s) return 0;
    /* keys end in "#<id>" */
    const char *h = strrchr(s, '#');
    if (!h) {            /* the equal-hash pair carries no suffix */
        for (int j = NK; j >= 1; j--) if (!strcmp(s, kn[j])) return j;
        return -1;
    }
    int k = atoi(h + 1);
    if (k < 1 || k > NK || strcmp(s, kn[k])) return -1;
    return k;
}
static struct { void *p; int id; size_t n; int iskey; } kept[64];
static int nkept;
static void keep(void *p, int id, size_t n, int iskey) {
    if (!p) return;
    if (nkept < 64 && id > 0) { kept[nkept].p = p; kept[nkept].id = id; kept[nkept].n = n; kept[nkept].iskey = iskey; nkept++; }
    else free(p);
}
static int check_kept(void) {
    int ok = 1;
    for (int k = 0; k < nkept; k++) {
        int id = kept[k].iskey ? kid(kept[k].p) : vid(kept[k].p, kept[k].n);
        if (id != kept[k].id) ok = 0;
        free(kept[k].p);
    }
    nkept = 0;
    return ok;
}
static void chain_json(vh_buf *b, qhashtbl_obj_t *o) {
    vh_bprintf(b, "[");
    int f = 1, cnt = 0;
    for (; o && cnt < 100000; o = o->next, cnt++) { vh_bprintf(b, "%s[%d,%d]", f ? "" : ",", kid(o->name), vid(o->data, o->size)); f = 0; }
    vh_bprintf(b, "]");
}

int main(int argc, char **argv) {
    if (argc < 7) return 2;
    R = atoi(argv[3]); NK = atoi(argv[4]);
    int ts = strchr(argv[6], 't') != NULL, inj_at = strchr(argv[6], 'a') != NULL, inj_from = strchr(argv[6], 'f') != NULL;
    int realR = R ? R : 1000;
    kn = vh_malloc(sizeof(char *) * (size_t) (NK + 1)); khome = vh_malloc(sizeof(int) * (size_t) (NK + 1));
    if (strcmp(argv[5], "-")) {
        char *hs = argv[5];
        for (int k = 1; k <= NK; k++) {
            int want = atoi(hs); char *c = strchr(hs, ','); hs = c ? c + 1 : hs;
            kn[k] = vh_malloc(48);
            for (int s = 0;; s++) {
                /* varied lengths, including the empty-prefix form */
                if (k % 2) snprintf(kn[k], 48, "k%d#%d", s, k); else snprintf(kn[k], 48, "a-longer-key-name-%d#%d", s, k);
                if ((int) (qhashmurmur3_32(kn[k], strlen(kn[k])) % (uint32_t) realR) == want) break;
            }
            khome[k] = want;
        }
    } else {
        for (int k = 1; k <= NK; k++) {
            kn[k] = vh_malloc(48);
            snprintf(kn[k], 48, "%s#%d", (k % 3 == 0) ? "" : (k % 3 == 1) ? "key" : "another/longer key with spaces", k);
            khome[k] = (int) (qhashmurmur3_32(kn[k], strlen(kn[k])) % (uint32_t) realR);
        }
    }
    /* two keys whose 32-bit murmur hashes are EQUAL (the table keeps the hash next to the name and compares it first): the
     * first two keys sharing the pair's home slot are named so */
    {
        static const char *PAIR[2] = {"c178039", "c290156"};
        uint32_t ph = qhashmurmur3_32(PAIR[0], strlen(PAIR[0]));
        if (ph == qhashmurmur3_32(PAIR[1], strlen(PAIR[1]))) {
            int home = (int) (ph % (uint32_t) realR), first = 0;
            if (!strcmp(argv[5], "-") && NK >= 2) { khome[1] = khome[2] = home; }       /* random histories: keys 1 and 2 */
            int second = 0;
            for (int k = 1; k <= NK; k++) {
                if (khome[k] != home) continue;
                if (!first) first = k;
                else { strcpy(kn[first], PAIR[0]); strcpy(kn[k], PAIR[1]); second = k; break; }
            }
            /* ... and the empty string as a key (its hash is 0): the last key whose home slot is 0 and that is not one of the pair */
            for (int k = NK; k >= 1; k--) {
                if (k == first || k == second) continue;
                if (!strcmp(argv[5], "-")) { kn[k][0] = 0; khome[k] = 0; break; }
                if (khome[k] == 0) { kn[k][0] = 0; break; }
            }
        }
    }
    FILE *in = fopen(argv[1], "r");
    if (!in) return 2;
    FILE *devnull = fopen("/dev/null", "w");
    vh_open(argv[2]);
    vh_install_handlers();
    vh_ledger_on = 1; vh_quarantine = 1;
    qhashtbl_t *T = NULL;
    char line[256], op[32];
    vh_buf b = {0};
    long mark = 0, evno = 0;
    while (1) {
        char *got = fgets(line, sizeof line, in);
        if (!got || !strncmp(line, "reset", 5)) {
            if (T) {
                T->free(T);
                int cok = check_kept();
                vh_emit("{\"op\":\"free\",\"k\":0,\"v\":0,\"live\":%ld,\"copies_ok\":%s}", vh_live_since(mark), vh_bool(cok));
                T = NULL;
            }
            if (!got) break;
            vh_seg++; vh_step = 0; INTVAL = IVALS[vh_seg % 4];
            mark = vh_ledger_mark();
            if (inj_at || inj_from) {
                /* constructor under allocation failure: NULL and nothing left allocated, or a working object */
                for (long ck = 1; ck <= 16; ck++) {
                    long m0 = vh_ledger_mark();
                    vh_where = "ctor";
                    vh_call_begin();
                    if (inj_at) vh_fail_at = ck; else vh_fail_from = ck;
                    T = qhashtbl((size_t) R, ts ? QHASHTBL_THREADSAFE : 0);
                    long nf = vh_failed;
                    vh_call_end();
                    int cok = T != NULL;
                    if (T) { T->free(T); T = NULL; }
                    vh_emit("{\"op\":\"ctor\",\"k\":0,\"v\":0,\"inj\":%ld,\"nfail\":%ld,\"ok\":%s,\"live\":%ld}", ck, nf, vh_bool(cok), vh_live_since(m0));
                    if (nf == 0) break;
                }
            }

            T = qhashtbl((size_t) R, ts ? QHASHTBL_THREADSAFE : 0);
            if (!T) return 2;
            vh_emit("{\"op\":\"reset\",\"k\":0,\"v\":0,\"range\":%d}", (int) T->range);
            continue;
        }
        int k = 0, v = 0;
        if (sscanf(line, "%31s %d %d", op, &k, &v) < 1) continue;
        if (k < 0 || k > NK) continue;
        vh_step++; evno++;
        vh_where = op;
        int inject = (inj_at || inj_from) && (!strcmp(op, "put") || !strcmp(op, "get") || !strcmp(op, "walk"));
        for (long kk = 1;; kk++) {
            if (inject && kk > 300) inject = 0;      /* give up injecting: finish the operation normally */
            unsigned char vb0[1100]; size_t vn = mkval(vb0, v);
            char *name = NULL; unsigned char *vb = vh_malloc(vn ? vn : 1);
            memcpy(vb, vb0, vn);
            /* the key sits at one of the four alignments modulo 4 and still ends where its block ends */
            char *name0 = NULL; size_t koff = ((size_t) (((uint32_t) vh_step * 2654435761u) >> 30));
            if (k) { name0 = vh_malloc(strlen(kn[k]) + 1 + koff); name = name0 + koff; strcpy(name, kn[k]); }
            int ok = 1, rv = 0; long n = 0; size_t sz = 0; void *p = NULL;
            static int outk[70000], outv[70000]; int nout = -1;
            long lkb = VH_LOCK_BALANCE(), ovb = vh_overlap_copies, bfb = vh_badfree;
            int newmem = (int) (vh_step & 1);
            vh_watchdog(6);
            errno = 0;
            vh_call_begin();
            if (inject) { if (inj_at) vh_fail_at = kk; else vh_fail_from = kk; }
            if (!strcmp(op, "put")) {
                if (v == 1) ok = (vh_step & 2) ? T->putstr(T, name, (char *) vb) : T->putstrf(T, name, "%s", (char *) vb);
                else if (v == 3) ok = T->putint(T, name, INTVAL);
                else if (v == 7) ok = T->putstrf(T, name, "%.512s%s", (char *) vb, (char *) vb + 512);
                else ok = T->put(T, name, vb, vn);
            } else if (!strcmp(op, "get")) {
                /* typed getters chosen by what is stored, so every wrapper is exercised */
                int cur = 0;
                for (qhashtbl_obj_t *o = T->slots[khome[k]]; o; o = o->next) if (!strcmp(o->name, kn[k])) cur = vid(o->data, o->size);
                if (cur == 1 && (vh_step & 2)) { p = T->getstr(T, name, newmem); sz = p ? strlen(p) + 1 : 0; }
                else if (cur == 3 && (vh_step & 2)) {
                    int64_t x = T->getint(T, name);
                    if (!(vh_failed > 0 && x == 0)) { p = vh_malloc(32); sz = (size_t) sprintf(p, "%" PRId64, x) + 1; newmem = 2; }
                } else { sz = 0; p = T->get(T, name, &sz, newmem); }
                ok = p != NULL;
                if (p) { rv = vid(p, sz); n = (long) sz; if (newmem == 1) keep(p, rv, sz, 0); else if (newmem == 2) vh_free(p); p = NULL; }
            } else if (!strcmp(op, "remove")) ok = T->remove(T, name);
            else if (!strcmp(op, "clear")) T->clear(T);
            else if (!strcmp(op, "size")) rv = (int) T->size(T);
            else if (!strcmp(op, "debug")) ok = T->debug(T, devnull);
            else if (!strcmp(op, "walk")) {
                qhashtbl_obj_t o; memset(&o, 0, sizeof o);
                nout = 0;
                if (ts) T->lock(T);
                while (T->getnext(T, &o, newmem)) {
                    if (nout < 70000) { outk[nout] = kid(o.name); outv[nout] = vid(o.data, o.size); }
                    nout++;
                    if (newmem) { free(o.name); free(o.data); }
                    if (nout > 200000) break;
                }
                ok = (errno == ENOENT);
                if (ts) T->unlock(T);
                rv = ok ? nout : 0;
            }
            int e = ok ? 0 : vh_ecls(errno);
            long nfail = vh_failed;
            vh_call_end();
            alarm(0);
            if (name) { memset(name, '#', strlen(name)); vh_free(name0); }
            memset(vb, 0x5A, vn); vh_free(vb);
            int h = k ? khome[k] : 0;
            int full = (realR <= 8) || (evno % 200 == 0);
            vh_bprintf(&b, "{\"op\":\"%s\",\"k\":%d,\"v\":%d,\"h\":%d,\"inj\":%ld,\"nfail\":%ld,\"ok\":%s,\"err\":%d,\"rv\":%d,\"n\":%ld,\"num\":%zu,\"out\":[",
                       op, k, v, h, inject ? kk : 0L, nfail, vh_bool(ok), e, rv, n, T->num);
            for (int j = 0; j < nout && j < 70000 && (ok || inject); j++) vh_bprintf(&b, "%s[%d,%d]", j ? "," : "", outk[j], outv[j]);
            vh_bprintf(&b, "],\"hc\":");
            chain_json(&b, T->slots[h]);
            vh_bprintf(&b, ",\"full\":%s,\"chains\":[", vh_bool(full));
            if (full) for (int i = 0; i < realR; i++) { if (i) vh_bprintf(&b, ","); chain_json(&b, T->slots[i]); }
            vh_bprintf(&b, "],\"lkd\":%ld,\"ovl\":%ld,\"bf\":%ld}", VH_LOCK_BALANCE() - lkb, vh_overlap_copies - ovb, vh_badfree - bfb);
            vh_bflush(&b);
            if (!inject || nfail == 0 || ok ) break;
        }
    }
    vh_close();
    exit(0);
}
