/* Replays operation scripts on the real qhasharr and records typed ndjson events for HashArrTrace.tla.
 * usage: replay_hasharr <script> <trace> <N> <NK> <homes h1,h2,..|-> <profile> <flags>
 *   homes given: key names are searched so that qhashmurmur3_32(name,size) % N is the prescribed slot
 *   profile: bit0 = long keys (> 16 bytes, sharing a 16-byte prefix), bits1-2 = which real length stands for a
 *            model length class (0: 1/33/99, 1: 20/60/130, 2: 32/98/164)
 *   flags: a/f = allocation failure injection
 * After every call the raw bytes of the region are decoded into slot records (the "image"), and all
 * observations are repeated through a second handle attached (memsize 0) to a byte-for-byte copy of the
 * region at another address and alignment while the original region is made inaccessible (C07). */
#include "qlibc.h"
#include "vh.h"
#include <stdlib.h>
#include <string.h>
#include <errno.h>
#include <sys/mman.h>
#include <unistd.h>

#define MAXK 64
static int N, NK, profile;
static int home[MAXK + 1]; static char *keyname[MAXK + 1]; static int keylen[MAXK + 1];
static unsigned char keymd5[MAXK + 1][16];
static const int lenmap[3][4] = {{0, 1, 33, 99}, {0, 20, 60, 130}, {0, 32, 98, 164}};
#define D1 Q_HASHARR_DATASIZE
#define D2 ((int) sizeof(struct Q_HASHARR_SLOT_KEYVAL))
static unsigned char vbyte(int vid, int off) {
    if (vid == 5) return (unsigned char) ('a' + (off * 7 + 3) % 26);                     /* value 5: a C string (terminator set by mkval) */
    if (vid >= 3 && off < 5) return (unsigned char) (1 + (1 * 97 + off * 7 + 3) % 251);  /* values 3, 4: as value 1 up to ... */
    if (vid >= 3 && off == 5) return 0;                                                  /* ... an embedded NUL */
    return (unsigned char) (1 + (vid * 97 + off * 7 + 3) % 251);                         /* never 0: a lone NUL chunk can only be value 5's terminator */
}
static void mkval(unsigned char *b, int vid, int len) { for (int j = 0; j < len; j++) b[j] = vbyte(vid, j); if (vid == 5 && len > 0) b[len - 1] = 0; }
static int valid_of(const unsigned char *d, size_t sz) {
    if (!d) return 0;
    for (int v = 1; v <= 4; v++) { int ok = 1; for (size_t j = 0; j < sz; j++) if (d[j] != vbyte(v, (int) j)) { ok = 0; break; } if (ok) return v; }
    if (sz > 0 && d[sz - 1] == 0) { int ok = 1; for (size_t j = 0; j + 1 < sz; j++) if (d[j] != vbyte(5, (int) j)) { ok = 0; break; } if (ok) return 5; }
    return -1;
}
static qhasharr_slot_t *slots_of(void *region) { return (qhasharr_slot_t *) ((char *) region + sizeof(qhasharr_data_t)); }
static int keyid_of_slot(qhasharr_slot_t *s) {
    for (int k = 1; k <= NK; k++) {
        int n = keylen[k];
        if (s->data.pair.namesize == n && !memcmp(s->data.pair.name, keyname[k], n < Q_HASHARR_NAMESIZE ? n : Q_HASHARR_NAMESIZE)
            && !memcmp(s->data.pair.namemd5, keymd5[k], 16)) return k;
    }
    return -1;
}
/* part number of an extension slot = 1 + number of back-links to the key slot (bounded) */
static int part_of(qhasharr_slot_t *sl, int i) {
    int p = 1;
    for (int fuel = 0; fuel <= N; fuel++) {
        if (sl[i].count != -2) return p;
        int prev = (int) sl[i].hash;
        if (prev < 0 || prev >= N) return -1;
        i = prev; p++;
    }
    return -1;
}
static int chunk_vid(const unsigned char *d, int dsz, int part) {
    if (dsz <= 0) return 0;
    if (part < 1) return -1;
    int off = part == 1 ? 0 : D1 + (part - 2) * D2;
    for (int v = 1; v <= 4; v++) { int ok = 1; for (int j = 0; j < dsz; j++) if (d[j] != vbyte(v, off + j)) { ok = 0; break; } if (ok) return v; }
    { int ok = 1, n = d[dsz - 1] == 0 ? dsz - 1 : dsz;        /* value 5: the chunk may end with the string terminator */
      for (int j = 0; j < n; j++) if (d[j] != vbyte(5, off + j)) { ok = 0; break; }
      if (ok) return 5; }
    return -1;
}
static void image(vh_buf *b, void *region) {
    qhasharr_slot_t *sl = slots_of(region);
    vh_bprintf(b, "\"img\":[");
    for (int i = 0; i < N; i++) {
        qhasharr_slot_t *s = &sl[i];
        int vid = 0, part = 0, key = 0;
        if (s->count == -2) { part = part_of(sl, i); vid = chunk_vid(s->data.ext.data, s->datasize, part); }
        else if (s->count != 0) { key = keyid_of_slot(s); part = 1; vid = chunk_vid(s->data.pair.data, s->datasize, 1); }
        vh_bprintf(b, "%s{\"count\":%d,\"hash\":%d,\"link\":%d,\"dsz\":%d,\"key\":%d,\"vid\":%d,\"part\":%d}", i ? "," : "",
                   s->count, (s->hash < 100000u) ? (int) s->hash : -7, (s->link >= -1 && s->link < 100000) ? s->link : -7, s->datasize, key, vid, part);
    }
    vh_bprintf(b, "]");
}
/* all observations through handle t: every key's get, the size triple, a full walk */
static void observe(vh_buf *b, qhasharr_t *t, const char *pfx) {
    int mx = -1, us = -1, num = t->size(t, &mx, &us);
    vh_bprintf(b, "\"%ssize\":[%d,%d,%d],\"%sgets\":[", pfx, num, mx, us, pfx);
    for (int k = 1; k <= NK; k++) {
        size_t sz = 0; unsigned char *d;
        if ((profile & 1) || (profile & 8)) d = t->get_by_obj(t, keyname[k], (size_t) keylen[k], &sz); else d = t->get(t, keyname[k], &sz);
        vh_bprintf(b, "%s[%d,%zu]", k > 1 ? "," : "", valid_of(d, sz), d ? sz : (size_t) 0);
        free(d);
    }
    vh_bprintf(b, "],\"%swalk\":[", pfx);
    qhasharr_obj_t o; int idx = 0, first = 1, guard = 0;
    memset(&o, 0, sizeof o);
    while (t->getnext(t, &o, &idx) && guard++ < N + 2) {
        qhasharr_slot_t *s = &slots_of(t->data)[idx - 1];
        int k = keyid_of_slot(s);
        /* the returned name is the stored (possibly truncated) key */
        size_t want = (size_t) (keylen[k > 0 ? k : 0] < Q_HASHARR_NAMESIZE ? keylen[k > 0 ? k : 0] : Q_HASHARR_NAMESIZE);
        if (k > 0 && (o.namesize != want || memcmp(o.name, keyname[k], want))) k = -1;
        vh_bprintf(b, "%s[%d,%d,%zu]", first ? "" : ",", k, valid_of(o.data, o.datasize), o.datasize); first = 0;
        free(o.name); free(o.data);
    }
    vh_bprintf(b, "]");
}

/* copies handed out by get are retained and re-inspected after later mutations and after the handle is gone (C12) */
static struct { unsigned char *p; int id; size_t n; } kept[64];
static int nkept;
static void keep(unsigned char *p, int id, size_t n) {
    if (!p) return;
    if (nkept < 64 && id > 0) { kept[nkept].p = p; kept[nkept].id = id; kept[nkept].n = n; nkept++; } else free(p);
}
static int check_kept(void) {
    int ok = 1;
    for (int k = 0; k < nkept; k++) { if (valid_of(kept[k].p, kept[k].n) != kept[k].id) ok = 0; free(kept[k].p); }
    nkept = 0;
    return ok;
}
static size_t msz, mapsz; static long pg;
static unsigned char *arena[2];     /* two page-aligned mappings; the region sits at a varying offset inside */
static int offs[] = {64, 68, 72, 80, 4096, 65, 4100};   /* 4-, 8-, 16-byte, page and odd alignments (x86 tolerates) */
/* Each mapping ends in one PROT_NONE page.  Even variants put the region flush against that guard page, so even a READ of
 * one byte past the user-supplied region faults; odd variants use the offset table (with a canary behind the region). */
static int flush_end(int variant) { return (variant % 2) == 0; }
static unsigned char *region_at(int which, int variant) {
    if (flush_end(variant)) return arena[which] + mapsz - msz;
    return arena[which] + offs[(variant / 2) % 5];
}
static void canary_fill(unsigned char *r, int variant) { memset(r - 64, 0xC7, 64); if (!flush_end(variant)) memset(r + msz, 0xC7, 64); }
static int canary_ok(unsigned char *r, int variant) {
    for (int j = 0; j < 64; j++) if (r[-64 + j] != 0xC7 || (!flush_end(variant) && r[msz + j] != 0xC7)) return 0;
    return 1;
}

int main(int argc, char **argv) {
    if (argc < 8) return 2;
    N = atoi(argv[3]); NK = atoi(argv[4]); profile = atoi(argv[6]);
    int inj_at = strchr(argv[7], 'a') != NULL, inj_from = strchr(argv[7], 'f') != NULL;
    int lp = (profile >> 1) % 3, longkeys = (profile & 1) || (profile & 8);      /* long and huge keys go through the *_by_obj API */
    if (NK > MAXK) return 2;
    char *hs = argv[5];
    for (int k = 1; k <= NK; k++) {
        int want = -1;
        if (strcmp(argv[5], "-")) { want = atoi(hs); char *c = strchr(hs, ','); hs = c ? c + 1 : hs; }
        /* profile bit 3: huge keys, up to the 65535-byte limit of the stored key length; all share their first bytes */
        static const int HUGE_[] = {17, 18, 255, 256, 257, 4096, 65534, 65535, 300, 40000};
        int huge = (profile & 8) ? HUGE_[k % 10] : 0;
        keyname[k] = vh_malloc(huge ? (size_t) huge + 1 : 80);
        for (int salt = 0;; salt++) {
            if (huge) {
                memset(keyname[k], 'K', (size_t) huge); keyname[k][huge - 1] = 0;
                int w = snprintf(keyname[k] + (huge > 30 ? huge - 14 : 1), 13, "%d.%d", k, salt);      /* the difference sits near the end */
                keyname[k][(huge > 30 ? huge - 14 : 1) + w] = 'K';
                keyname[k][huge - 1] = 0;
                keylen[k] = huge;
                if (want < 0 || (int) (qhashmurmur3_32(keyname[k], (size_t) keylen[k]) % (uint32_t) N) == want) break;
                continue;
            }
            if (longkeys) snprintf(keyname[k], 80, "shared-16b-prefix/%d/%d-tail", k, salt);     /* first 16 bytes identical for all keys */
            else snprintf(keyname[k], 80, "k%d_%d", k, salt);
            keylen[k] = (int) strlen(keyname[k]) + 1;
            if (want < 0 || (int) (qhashmurmur3_32(keyname[k], (size_t) keylen[k]) % (uint32_t) N) == want) break;
        }
        home[k] = (int) (qhashmurmur3_32(keyname[k], (size_t) keylen[k]) % (uint32_t) N);
        qhashmd5(keyname[k], (size_t) keylen[k], keymd5[k]);
    }
    FILE *in = fopen(argv[1], "r");
    if (!in) return 2;
    FILE *devnull = fopen("/dev/null", "w");
    vh_open(argv[2]);
    vh_install_handlers();
    vh_ledger_on = 1; vh_quarantine = 1;
    msz = qhasharr_calculate_memsize(N);
    pg = sysconf(_SC_PAGESIZE);
    mapsz = ((msz + 8192 + 128) / (size_t) pg + 2) * (size_t) pg;
    for (int w = 0; w < 2; w++) {
        arena[w] = mmap(NULL, mapsz + (size_t) pg, PROT_READ | PROT_WRITE, MAP_PRIVATE | MAP_ANONYMOUS, -1, 0);
        if (arena[w] == MAP_FAILED) return 2;
        mprotect(arena[w] + mapsz, (size_t) pg, PROT_NONE);          /* guard page behind the arena */
    }
    int cur = 0, variant = 0, curvariant = 0;
    unsigned char *mem = NULL;
    qhasharr_t *T = NULL, *S = NULL;       /* S: a second long-lived handle attached to the same region; calls alternate between the two */
    char line[256], op[32];
    vh_buf b = {0};
    long mark = 0;
    while (1) {
        char *got = fgets(line, sizeof line, in);
        if (!got || !strncmp(line, "reset", 5)) {
            if (T) {
                T->free(T); if (S) { S->free(S); S = NULL; }
                memset(mem, 0xDD, msz);                      /* the region is gone too: copies must not depend on it */
                int cok = check_kept();
                vh_emit("{\"op\":\"free\",\"a\":0,\"vid\":0,\"len\":0,\"live\":%ld,\"copies_ok\":%s}", vh_live_since(mark), vh_bool(cok));
                T = NULL;
            }
            if (!got) break;
            vh_seg++; vh_step = 0;
            mark = vh_ledger_mark();
            cur = 0; variant = (int) vh_seg;
            curvariant = variant;
            /* the constructor on regions of many sizes (one byte up to a few slots; size 0 means "attach"), each placed flush against the guard page */
            int bad = -1; long firstbad = -1;
            if ((vh_seg % 8) == 1 && !inj_at && !inj_from) {
                bad = 0;
                size_t hdr = sizeof(qhasharr_data_t), ssz = sizeof(qhasharr_slot_t);
                vh_where = "ctorsz";
                for (size_t s = 1; s <= hdr + 4 * ssz + 3 && s + 64 < mapsz; s += (s < 40 || (s % ssz) <= 2 || (s % ssz) >= ssz - 2) ? 1 : 7) {
                    size_t slack = (4 - s % 4) % 4;              /* the region itself must be aligned for the header: that is the caller's duty */
                    unsigned char *r = arena[1] + mapsz - s - slack;
                    memset(r - 64, 0xC7, 64);
                    memset(r, 0xEE, s);
                    memset(r + s, 0xC7, slack);
                    vh_watchdog(6);
                    qhasharr_t *t = qhasharr(r, s);
                    alarm(0);
                    int okc = 1;
                    for (int j = 0; j < 64; j++) if (r[-64 + j] != 0xC7) okc = 0;
                    for (size_t j = 0; j < slack; j++) if (r[s + j] != 0xC7) okc = 0;
                    if (t) {
                        qhasharr_data_t *d = (qhasharr_data_t *) r;
                        if (s < hdr || d->maxslots < 1 || hdr + (size_t) d->maxslots * ssz > s) okc = 0;
                        t->free(t);
                    }
                    if (!okc) { bad++; if (firstbad < 0) firstbad = (long) s; }
                }
            }
            mem = region_at(cur, variant);
            memset(arena[cur], 0xC7, mapsz);
            T = qhasharr(mem, msz);
            if (!T) return 2;
            S = qhasharr(mem, 0);
            vh_bprintf(&b, "{\"op\":\"reset\",\"a\":0,\"vid\":0,\"len\":0,\"n\":%d,\"homes\":[", N);
            for (int k = 1; k <= NK; k++) vh_bprintf(&b, "%s%d", k > 1 ? "," : "", home[k]);
            vh_bprintf(&b, "],\"d1\":%d,\"d2\":%d}", D1, D2);
            vh_bflush(&b);
            if (bad >= 0) vh_emit("{\"op\":\"ctorsz\",\"a\":0,\"vid\":0,\"len\":0,\"bad\":%d,\"first\":%ld}", bad, firstbad);
            continue;
        }
        int a = 0, vid = 0, lc = 0;
        if (sscanf(line, "%31s %d %d %d", op, &a, &vid, &lc) < 1) continue;
        vh_step++;
        vh_where = op;
        int inject = (inj_at || inj_from) && (!strcmp(op, "put") || !strcmp(op, "get") || !strcmp(op, "walk"));
        for (long kk = 1;; kk++) {
            if (inject && kk > 300) inject = 0;      /* give up injecting: finish the operation normally */
            int ok = 1, len = 0, rv = 0; size_t rsz = 0;
            unsigned char *v = NULL; char *kb = NULL;
            if (!strcmp(op, "put")) {
                len = (lc >= 1 && lc <= 3) ? lenmap[lp][lc] : lc;       /* length class (tours) or literal length (random) */
                v = vh_malloc((size_t) len + 1); mkval(v, vid, len);
            }
            char *kb0 = NULL; size_t koff = ((size_t) (((uint32_t) vh_step * 2654435761u) >> 30));          /* keys at every alignment modulo 4 */
            if (a >= 1 && a <= NK && strcmp(op, "rmidx")) { kb0 = vh_malloc((size_t) keylen[a] + koff); kb = kb0 + koff; memcpy(kb, keyname[a], (size_t) keylen[a]); }
            vh_watchdog(6);
            /* the string flavours of the API: usable with NUL-terminated keys when the value is a C string (value 5) */
            int strget = 0;
            if (!strcmp(op, "get") && !longkeys && (vh_step % 3) == 0) {
                size_t psz = 0; unsigned char *pd = T->get(T, kb, &psz);
                strget = pd && valid_of(pd, psz) == 5;
                free(pd);
            }
            /* the call goes through one of the two handles on this region: nothing that decides a lookup may live in a handle */
            qhasharr_t *P = T;
            if (S && ((((uint32_t) vh_step * 2246822519u) >> 16) & 1)) T = S;
            errno = 0;
            vh_call_begin();
            if (inject) { if (inj_at) vh_fail_at = kk; else vh_fail_from = kk; }
            if (!strcmp(op, "put")) {
                if (longkeys) ok = T->put_by_obj(T, kb, (size_t) keylen[a], v, (size_t) len);
                else if (vid == 5 && len > 0 && (vh_step & 1)) ok = T->putstr(T, kb, (char *) v);
                else if (vid == 5 && len > 0) ok = T->putstrf(T, kb, "%s", (char *) v);
                else ok = T->put(T, kb, v, (size_t) len);
            } else if (!strcmp(op, "get") && strget) {
                char *d = T->getstr(T, kb);
                ok = d != NULL; rsz = d ? strlen(d) + 1 : 0; rv = valid_of((unsigned char *) d, rsz); keep((unsigned char *) d, rv, rsz);
            } else if (!strcmp(op, "get")) {
                unsigned char *d = longkeys ? T->get_by_obj(T, kb, (size_t) keylen[a], &rsz) : T->get(T, kb, &rsz);
                ok = d != NULL; rv = valid_of(d, rsz); if (!d) rsz = 0; keep(d, rv, rsz);
            } else if (!strcmp(op, "rm")) ok = longkeys ? T->remove_by_obj(T, kb, (size_t) keylen[a]) : T->remove(T, kb);
            else if (!strcmp(op, "rmidx")) ok = T->remove_by_idx(T, a);
            else if (!strcmp(op, "clear")) T->clear(T);
            else if (!strcmp(op, "debug")) ok = T->debug(T, devnull);
            int e = ok ? 0 : vh_ecls(errno);
            long nfail = vh_failed;
            vh_call_end();
            alarm(0);
            T = P;
            if (v) { memset(v, 0xA5, (size_t) len); vh_free(v); }
            if (kb) { memset(kb, 0xA5, (size_t) keylen[a]); vh_free(kb0); }
            int gok = canary_ok(mem, curvariant);
            vh_bprintf(&b, "{\"op\":\"%s\",\"a\":%d,\"vid\":%d,\"len\":%d,\"inj\":%ld,\"nfail\":%ld,\"ok\":%s,\"err\":%d,\"rv\":%d,\"rsz\":%zu,\"guard_ok\":%s,",
                       op, a, vid, len, inject ? kk : 0L, nfail, vh_bool(ok), e, rv, rsz, vh_bool(gok));
            /* observations through the handle that did the mutation ... */
            vh_where = "observe"; vh_watchdog(6);
            observe(&b, T, "");
            vh_bprintf(&b, ",");
            if (S) observe(&b, S, "s"); else vh_bprintf(&b, "\"ssize\":[-1,-1,-1],\"sgets\":[],\"swalk\":[]");
            vh_bprintf(&b, ",");
            image(&b, mem);
            /* ... and through a second handle attached to a copy elsewhere while the original is inaccessible */
            int other = 1 - cur; variant++;
            unsigned char *copy = region_at(other, variant);
            memset(arena[other], 0xC7, mapsz);
            memcpy(copy, mem, msz);
            canary_fill(copy, variant);
            mprotect(arena[cur], mapsz, PROT_NONE);
            qhasharr_t *T2 = qhasharr(copy, 0);
            vh_bprintf(&b, ",");
            if (T2) observe(&b, T2, "r"); else vh_bprintf(&b, "\"rsize\":[-1,-1,-1],\"rgets\":[],\"rwalk\":[]");
            alarm(0);
            mprotect(arena[cur], mapsz, PROT_READ | PROT_WRITE);
            vh_bprintf(&b, ",\"moved\":%s,\"ovl\":%ld,\"bf\":%ld}", vh_bool((vh_step % 3) == 0), vh_overlap_copies, vh_badfree);
            vh_bflush(&b);
            vh_overlap_copies = 0; vh_badfree = 0;
            if ((vh_step % 3) == 0 && T2) {
                /* every third step the roles swap: operation continues on the copy through the attached handle */
                T->free(T); T = T2; cur = other; mem = copy; curvariant = variant;
                if (S) S->free(S);
                S = qhasharr(mem, 0);
            } else if (T2) T2->free(T2);
            if (!inject || nfail == 0 || ok ) break;
        }
    }
    vh_close();
    exit(0);
}
