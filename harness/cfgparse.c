/* C20 driver: parses rendered configuration files with the real qaconf / qconfig and prints what they delivered.
 *   cfgparse aconf <listfile> <out>     listfile: one "<flags> <path>" per line (flags: bit0 case-insensitive, bit1 ignore-unknown)
 *   cfgparse ini <listfile> <out>       listfile: one path per line; odd lines go through qconfig_parse_file, even through _parse_str */
#include "qlibc.h"
#include "qlibcext.h"
#include "vh.h"
#include <stdlib.h>
#include <string.h>

static vh_buf b;
static void jstr(const char *s) {
    vh_bprintf(&b, "\"");
    for (; s && *s; s++) {
        unsigned char c = (unsigned char) *s;
        if (c == '"' || c == '\\') vh_bprintf(&b, "\\%c", c);
        else if (c < 32 || c >= 127) vh_bprintf(&b, "\\u%04x", c);
        else vh_bprintf(&b, "%c", c);
    }
    vh_bprintf(&b, "\"");
}
static int first;
static int sentinel;            /* the userdata handed to every callback */
static const char *handler = "cb";
static QAC_CB(cb) {
    vh_bprintf(&b, "%s{\"h\":\"%s\",\"ud\":%s,\"otype\":%d,\"shown\":", first ? "" : ",", handler, vh_bool(userdata == (void *) &sentinel), data->otype); first = 0;
    jstr(data->argv[0]);
    vh_bprintf(&b, ",\"section\":%d,\"sections\":%d,\"level\":%d,\"args\":[", (int) data->section, (int) data->sections, data->level);
    for (int i = 1; i < data->argc; i++) { if (i > 1) vh_bprintf(&b, ","); jstr(data->argv[i]); }
    vh_bprintf(&b, "],\"parents\":[");
    int f = 1;
    for (qaconf_cbdata_t *p = data->parent; p; p = p->parent) { if (!f) vh_bprintf(&b, ","); f = 0; jstr(p->argv[0]); }
    vh_bprintf(&b, "]}");
    return NULL;
}
static QAC_CB(defcb) { handler = "def"; char *r = cb(data, userdata); handler = "cb"; return r; }
static QAC_CB(cbfail) {            /* a callback that refuses its directive: the parser must stop there with this message */
    (void) cb(data, userdata);
    return (data->argc > 1 && !strcmp(data->argv[1], "bad")) ? strdup("boom") : NULL;
}
static qaconf_option_t OPTS[] = {
    {"Listen", QAC_TAKE_INT, cb, 0, QAC_SECTION_ALL}, {"Flag", QAC_TAKE_BOOL, cb, 0, QAC_SECTION_ROOT},
    {"Domain", QAC_TAKE_STR, cb, 2, QAC_SECTION_ROOT}, {"Host", QAC_TAKE_STR, cb, 4, 2}, {"TTL", QAC_TAKE_INT, cb, 0, 2 | 4},
    {"Mix", QAC_TAKEALL | QAC_A1_BOOL | QAC_A2_INT | QAC_AA_FLOAT, cb, 0, QAC_SECTION_ALL}, {"Pair", QAC_TAKE2, cb, 0, QAC_SECTION_ALL},
    {"Five", QAC_TAKE5 | QAC_A1_INT | QAC_A3_FLOAT | QAC_A4_INT | QAC_A5_BOOL, cb, 0, QAC_SECTION_ALL}, {"Many", QAC_TAKEALL | QAC_AA_BOOL, cb, 0, QAC_SECTION_ALL},
    {"Quiet", QAC_TAKE_STR, NULL, 0, QAC_SECTION_ALL}, {"Fail", QAC_TAKE_STR, cbfail, 0, QAC_SECTION_ALL},
    QAC_OPTION_END };

int main(int argc, char **argv) {
    if (argc < 4) return 2;
    vh_install_handlers();
    FILE *lf = fopen(argv[2], "r"); if (!lf) return 2;
    vh_open(argv[3]);
    char line[1024];
    long n = 0;
    while (fgets(line, sizeof line, lf)) {
        line[strcspn(line, "\n")] = 0;
        n++; vh_step = n;
        if (!strcmp(argv[1], "aconf")) {
            int flags = atoi(line); char *path = strchr(line, ' '); if (!path) continue; path++;
            vh_where = "aconf"; vh_watchdog(5);
            qaconf_t *c = qaconf();
            c->addoptions(c, OPTS);
            c->setuserdata(c, &sentinel);
            if (flags & 4) c->setdefhandler(c, defcb);
            vh_bprintf(&b, "{\"cbs\":["); first = 1;
            int r = c->parse(c, path, (uint8_t) (flags & 3));
            const char *em = c->errmsg(c);
            int el = 0;
            if (r < 0 && em) { const char *p = strchr(em, ':'); if (p) el = atoi(p + 1); }
            vh_bprintf(&b, "],\"ret\":%d,\"physline\":%d,\"err\":", r, el); jstr(em ? em : ""); vh_bprintf(&b, "}");
            vh_bflush(&b);
            c->free(c);
            alarm(0);
        } else {
            vh_where = "ini"; vh_watchdog(5);
            qlisttbl_t *t;
            if (n & 1) t = qconfig_parse_file(NULL, line, '=');
            else { char *s = qfile_load(line, NULL); t = s ? qconfig_parse_str(NULL, s, '=') : NULL; free(s); }
            vh_bprintf(&b, "{\"ok\":%s,\"entries\":[", vh_bool(t != NULL));
            int f = 1;
            for (qlisttbl_obj_t *o = t ? t->first : NULL; o; o = o->next) {
                vh_bprintf(&b, "%s[", f ? "" : ","); f = 0; jstr(o->name); vh_bprintf(&b, ","); jstr((char *) o->data); vh_bprintf(&b, "]");
            }
            vh_bprintf(&b, "]}"); vh_bflush(&b);
            if (t) t->free(t);
            alarm(0);
        }
    }
    vh_close();
    exit(0);
}
