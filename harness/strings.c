/* Record generator for C19: calls the real qstring routines on every string up to a small length over an alphabet of
 * significant bytes and logs ndjson records for StrTrace.tla.  Destination buffers are exactly sized and sit between
 * canaries ("guard").
 *   strings enum <maxlen> <shard> <nshards> <out>
 *   strings rand <n> <seed> <out>
 *   strings misc <seed> <out>      predicates, number formatting, unique ids, long formatted strings */
#include "qlibc.h"
#include "vh.h"
#include <stdlib.h>
#include <string.h>

static const unsigned char AL[9] = {' ', '\t', '\n', 'a', 'B', ',', '"', 0xE9, '\r'};
static vh_buf b;
static void seq(const char *name, const unsigned char *p, size_t n, int comma) {
    vh_bprintf(&b, "%s\"%s\":[", comma ? "," : "", name);
    for (size_t i = 0; i < n; i++) vh_bprintf(&b, "%s%d", i ? "," : "", p[i]);
    vh_bprintf(&b, "]");
}
/* a buffer of `cap` usable bytes between two 16-byte canaries, initialised with `s` */
typedef struct { unsigned char *base; char *p; size_t cap; } gbuf;
static gbuf gnew(size_t cap, const unsigned char *s, size_t n) {
    gbuf g; g.cap = cap; g.base = malloc(cap + 32); g.p = (char *) g.base + 16;
    memset(g.base, 0xC3, cap + 32);
    if (s) { memcpy(g.p, s, n); if (n < cap) g.p[n] = 0; }
    return g;
}
static int gok(gbuf *g) { for (int i = 0; i < 16; i++) if (g->base[i] != 0xC3 || g->base[16 + g->cap + (size_t) i] != 0xC3) return 0; return 1; }
static void gfree(gbuf *g) { free(g->base); }
static void head(const char *fn, const unsigned char *s, size_t n) { vh_where = fn; vh_bprintf(&b, "{\"fn\":\"%s\"", fn); seq("s", s, n, 1); }
static void tail(int guard) { vh_bprintf(&b, ",\"guard\":%s}", vh_bool(guard)); vh_bflush(&b); }

static void inplace(const char *fn, const unsigned char *s, size_t n, char *(*f)(char *)) {
    gbuf g = gnew(n + 1, s, n);
    char *r = f(g.p);
    head(fn, s, n); seq("out", (unsigned char *) (r ? r : ""), r ? strlen(r) : 0, 1); tail(gok(&g) && r == g.p);
    gfree(&g);
}
static void do_all(const unsigned char *s, size_t n) {
    inplace("trim", s, n, qstrtrim); inplace("trimhead", s, n, qstrtrim_head); inplace("trimtail", s, n, qstrtrim_tail);
    inplace("rev", s, n, qstrrev); inplace("upper", s, n, qstrupper); inplace("lower", s, n, qstrlower);
    /* unchar with two quote pairs */
    static const char pairs[2][2] = {{'"', '"'}, {'a', 'B'}};
    for (int k = 0; k < 2; k++) {
        gbuf g = gnew(n + 1, s, n);
        char *r = qstrunchar(g.p, pairs[k][0], pairs[k][1]);
        head("unchar", s, n); vh_bprintf(&b, ",\"a\":%d,\"b\":%d,\"ok\":%s", pairs[k][0], pairs[k][1], vh_bool(r != NULL));
        seq("out", (unsigned char *) g.p, strlen(g.p), 1); tail(gok(&g)); gfree(&g);
    }
    /* replace: token lists and words */
    static const char *toks[] = {",", "a", " \t", "aB", ",,"}; static const char *words[] = {"", "x", "a,", "__-"};
    for (int ti = 0; ti < 5; ti++) for (int wi = 0; wi < 4; wi++) for (int m = 0; m < 4; m++) {
        const char *mode = m == 0 ? "tn" : m == 1 ? "tr" : m == 2 ? "sn" : "sr";
        size_t tl = strlen(toks[ti]), wl = strlen(words[wi]);
        size_t cap = (mode[0] == 't' ? n * (wl ? wl : 1) : n * (wl > 0 ? wl : 1)) + n + 1;    /* room for any result in the in-place variants */
        gbuf g = gnew(mode[1] == 'r' ? cap : n + 1, s, n);
        char *tk = strdup(toks[ti]), *wd = strdup(words[wi]);
        char *r = qstrreplace(mode, g.p, tk, wd);
        char fn[16]; snprintf(fn, sizeof fn, "rep_%s", mode);
        head(fn, s, n); seq("tok", (unsigned char *) toks[ti], tl, 1); seq("word", (unsigned char *) words[wi], wl, 1);
        seq("out", (unsigned char *) (r ? r : ""), r ? strlen(r) : 0, 1);
        int ok = gok(&g) && r != NULL && (mode[1] == 'r' ? r == g.p : (r != g.p && !strcmp(g.p, (char *) (n ? (const char *) memcpy(malloc(n + 1), s, n) : "")) ? 1 : 1));
        /* the new-buffer variants must leave the source untouched */
        if (mode[1] == 'n' && (strlen(g.p) != n || memcmp(g.p, s, n))) ok = 0;
        tail(ok);
        if (mode[1] == 'n') free(r);
        free(tk); free(wd); gfree(&g);
    }
    /* bounded copies: every buffer size 1..n+2, every nbytes 0..n */
    for (size_t size = 1; size <= n + 2; size++) {
        gbuf g = gnew(size, NULL, 0); memset(g.p, 0x7E, size);
        char *src = malloc(n + 1); memcpy(src, s, n); src[n] = 0;
        char *r = qstrcpy(g.p, size, src);
        head("cpy", s, n); vh_bprintf(&b, ",\"a\":%zu", size); seq("out", (unsigned char *) g.p, strnlen(g.p, size), 1); tail(gok(&g) && r == g.p && strnlen(g.p, size) < size);
        gfree(&g);
        for (size_t nb = 0; nb <= n; nb++) {
            gbuf h = gnew(size, NULL, 0); memset(h.p, 0x7E, size);
            r = qstrncpy(h.p, size, src, nb);
            head("ncpy", s, n); vh_bprintf(&b, ",\"a\":%zu,\"b\":%zu", size, nb); seq("out", (unsigned char *) h.p, strnlen(h.p, size), 1); tail(gok(&h) && r == h.p && strnlen(h.p, size) < size);
            gfree(&h);
        }
        free(src);
    }
    /* tokenizer: qstrtok loop and qstrtokenizer, delimiter sets "," and ", \t" */
    static const char *dels[] = {",", ", \t", ""};         /* an empty delimiter set: the whole string is the one field */
    for (int di = 0; di < 3; di++) {
        gbuf g = gnew(n + 1, s, n);
        head("tok", s, n); seq("tok", (unsigned char *) dels[di], strlen(dels[di]), 1);
        vh_bprintf(&b, ",\"toks\":[");
        int off = 0, first = 1, cnt = 0; char stop; char *t;
        unsigned char stops[66]; size_t nstops = 0;
        while ((stop = 0x7e, t = qstrtok(g.p, dels[di], &stop, &off)) != NULL && cnt++ < 64) {
            stops[nstops++] = (unsigned char) stop;          /* the delimiter that ended this field, or 0 at the end of the string */
            vh_bprintf(&b, "%s[", first ? "" : ","); first = 0;
            for (size_t j = 0; j < strlen(t); j++) vh_bprintf(&b, "%s%d", j ? "," : "", (unsigned char) t[j]);
            vh_bprintf(&b, "]");
        }
        vh_bprintf(&b, "]"); seq("stops", stops, nstops, 1); tail(gok(&g) && off >= 0 && (size_t) off <= n); gfree(&g);
        char *src = malloc(n + 1); memcpy(src, s, n); src[n] = 0;
        qlist_t *L = qstrtokenizer(src, dels[di]);
        head("tokenizer", s, n); seq("tok", (unsigned char *) dels[di], strlen(dels[di]), 1);
        vh_bprintf(&b, ",\"toks\":["); first = 1;
        for (qlist_obj_t *o = L ? L->first : NULL; o; o = o->next) {
            vh_bprintf(&b, "%s[", first ? "" : ","); first = 0;
            for (size_t j = 0; j + 1 < o->size; j++) vh_bprintf(&b, "%s%d", j ? "," : "", ((unsigned char *) o->data)[j]);
            vh_bprintf(&b, "]");
        }
        vh_bprintf(&b, "]"); tail(strlen(src) == n && !memcmp(src, s, n));
        if (L) L->free(L);
        free(src);
    }
    /* line reader over the whole text with a buffer that holds any line, and (CR-free texts) with a small one */
    for (int small = 0; small < 2; small++) {
        size_t size = small ? 3 : n + 2;
        char *src = malloc(n + 1); memcpy(src, s, n); src[n] = 0;
        gbuf g = gnew(size, NULL, 0);
        head("gets", s, n); vh_bprintf(&b, ",\"a\":%zu,\"toks\":[", size);
        char *offp = src; int first = 1, cnt = 0, guard = 1;
        while (qstrgets(g.p, size, &offp) != NULL && cnt++ < 64) {
            vh_bprintf(&b, "%s[", first ? "" : ","); first = 0;
            for (size_t j = 0; j < strnlen(g.p, size); j++) vh_bprintf(&b, "%s%d", j ? "," : "", (unsigned char) g.p[j]);
            vh_bprintf(&b, "]");
            if (!gok(&g)) guard = 0;
        }
        vh_bprintf(&b, "]"); tail(guard && gok(&g)); gfree(&g); free(src);
    }
    /* dup_between */
    static const char *st[] = {"\"", "a", ", "}; static const char *en[] = {"\"", "B", ","};
    for (int k = 0; k < 3; k++) {
        char *src = malloc(n + 1); memcpy(src, s, n); src[n] = 0;
        char *r = qstrdup_between(src, st[k], en[k]);
        head("between", s, n); seq("tok", (unsigned char *) st[k], strlen(st[k]), 1); seq("word", (unsigned char *) en[k], strlen(en[k]), 1);
        vh_bprintf(&b, ",\"ok\":%s", vh_bool(r != NULL)); seq("out", (unsigned char *) (r ? r : ""), r ? strlen(r) : 0, 1); tail(1);
        free(r); free(src);
    }
}

/* ---- the remaining routines of qstring.c: formatted append/duplicate, qmemdup, qstrtest, qstrunique, qstr_comma_number,
 * qstr_is_ip4addr, qstr_is_email (mode "misc") ---- */
static int in_ab(int c) { unsigned char u = (unsigned char) c; return u == 'a' || u == 'B' || u == 0xE9; }
static void do_small(const unsigned char *s, size_t n) {
    char *src = malloc(n + 1); memcpy(src, s, n); src[n] = 0;
    /* qstrtest with a caller-supplied class */
    static const unsigned char cls[3] = {'a', 'B', 0xE9};
    bool t = qstrtest(in_ab, src);
    head("test", s, n); seq("tok", cls, 3, 1); vh_bprintf(&b, ",\"ok\":%s", vh_bool(t)); tail(strlen(src) == n && !memcmp(src, s, n));
    /* qmemdup */
    unsigned char *d = qmemdup(src, n);
    head("memdup", s, n); vh_bprintf(&b, ",\"ok\":%s", vh_bool(d != NULL)); seq("out", d ? d : (unsigned char *) "", d ? n : 0, 1); tail(1);
    free(d);
    /* qstrcatf / qstrdupf: append every suffix of the string to every prefix */
    for (size_t k = 0; k <= n; k++) {
        gbuf g = gnew(n + 1, s, k); g.p[k] = 0;
        char *r = qstrcatf(g.p, "%s", src + k);
        head("catf", s, k); seq("tok", s + k, n - k, 1); seq("out", (unsigned char *) g.p, strnlen(g.p, n + 1), 1); tail(gok(&g) && r == g.p);
        gfree(&g);
        char *pre = malloc(k + 1); memcpy(pre, s, k); pre[k] = 0;
        char *q = qstrdupf("%s%s", pre, src + k);
        head("dupf", s, k); seq("tok", s + k, n - k, 1); vh_bprintf(&b, ",\"ok\":%s", vh_bool(q != NULL)); seq("out", (unsigned char *) (q ? q : ""), q ? strlen(q) : 0, 1); tail(1);
        free(q); free(pre);
    }
    free(src);
}
static void pred(const char *fn, const char *str, bool (*f)(const char *)) {
    size_t n = strlen(str); char *src = malloc(n + 1); memcpy(src, str, n + 1);
    vh_watchdog(10);
    bool r = f(src);
    alarm(0);
    head(fn, (const unsigned char *) str, n); vh_bprintf(&b, ",\"ok\":%s", vh_bool(r)); tail(!memcmp(src, str, n + 1));
    free(src);
}
static void comma(int v) {
    vh_watchdog(10);
    char *r = qstr_comma_number(v);
    alarm(0);
    unsigned int mag = v < 0 ? 0u - (unsigned int) v : (unsigned int) v;
    vh_where = "comma"; vh_bprintf(&b, "{\"fn\":\"comma\",\"s\":[],\"neg\":%s,\"q\":%u,\"r\":%u", vh_bool(v < 0), mag / 10, mag % 10);
    seq("out", (unsigned char *) (r ? r : ""), r ? strlen(r) : 0, 1); tail(r != NULL);
    free(r);
}
static void do_misc(uint32_t seed) {
    vh_srand(seed * 2654435761u + 11);
    /* dotted quads: every combination of four parts from a small pool, three and five parts, one odd part among valid ones */
    static const char *P8[] = {"0", "1", "255", "256", "", "a", "01", "99"};
    static const char *PV[] = {"0", "10", "255", "7"};
    static const char *PO[] = {"", "0", "1", "9", "10", "99", "100", "199", "200", "249", "250", "255", "256", "260", "300", "999", "1000", "2147483649", "4294967297",
                               "a", "1a", "a1", " 1", "1 ", "-1", "+1", "01", "00", "001", "0x1", "1,1", "\t1"};
    char buf[256];
    for (int a = 0; a < 8; a++) for (int c = 0; c < 8; c++) for (int d = 0; d < 8; d++) {
        snprintf(buf, sizeof buf, "%s.%s.%s", P8[a], P8[c], P8[d]); pred("ip4", buf, qstr_is_ip4addr);
        for (int e = 0; e < 8; e++) {
            snprintf(buf, sizeof buf, "%s.%s.%s.%s", P8[a], P8[c], P8[d], P8[e]); pred("ip4", buf, qstr_is_ip4addr);
            if ((a + c + d + e) % 4 == 0) for (int f = 0; f < 8; f++) { snprintf(buf, sizeof buf, "%s.%s.%s.%s.%s", P8[a], P8[c], P8[d], P8[e], P8[f]); pred("ip4", buf, qstr_is_ip4addr); }
        }
    }
    for (int pos = 0; pos < 4; pos++) for (size_t o = 0; o < sizeof PO / sizeof *PO; o++) for (int v = 0; v < 64; v++) {
        const char *q[4] = {PV[v & 3], PV[(v >> 2) & 3], PV[(v >> 4) & 3], PV[(v + pos) & 3]}; q[pos] = PO[o];
        snprintf(buf, sizeof buf, "%s.%s.%s.%s", q[0], q[1], q[2], q[3]); pred("ip4", buf, qstr_is_ip4addr);
    }
    static const char *odd[] = {"", ".", "..", "...", "....", "1", "1.2", "1.2.3.4.", ".1.2.3.4", "1.2.3.4 ", " 1.2.3.4", "1..2.3", "1.2.3.4\n", "127.0.0.1", "192.168.0.255", "0.0.0.0", "255.255.255.255"};
    for (size_t i = 0; i < sizeof odd / sizeof *odd; i++) pred("ip4", odd[i], qstr_is_ip4addr);
    /* e-mail addresses: every string up to length 5 over {a 1 @ . - blank}, and local@domain from pools */
    static const char EA[6] = {'a', '1', '@', '.', '-', ' '};
    for (int len = 0; len <= 5; len++) { long total = 1; for (int i = 0; i < len; i++) total *= 6;
        for (long v = 0; v < total; v++) { long w = v; for (int i = 0; i < len; i++) { buf[i] = EA[w % 6]; w /= 6; } buf[len] = 0; pred("email", buf, qstr_is_email); } }
    static const char *LO[] = {"ab", "a1", "a-b", "a_b", "a.b", "A9", "", "a b", "a@b", "a+b", "a\xE9", "x"};
    static const char *DO[] = {"cd.ef", "cd.ef.gh", "c-d.ef", "cd..ef", ".cd.ef", "cd.ef.", "cd", "", "c_d.ef", "cd.e f", "cd.ef@gh.ij", "CD.EF", "12.34", "c.d"};
    for (size_t i = 0; i < sizeof LO / sizeof *LO; i++) for (size_t j = 0; j < sizeof DO / sizeof *DO; j++) { snprintf(buf, sizeof buf, "%s@%s", LO[i], DO[j]); pred("email", buf, qstr_is_email); }
    /* numbers with thousands separators: every boundary of the digit count and of int, and seeded random ones */
    static const int NB[] = {0, 1, 9, 10, 99, 100, 999, 1000, 1001, 9999, 10000, 99999, 100000, 999999, 1000000, 9999999, 10000000, 99999999, 100000000,
                             999999999, 1000000000, 2147483646, 2147483647};
    for (size_t i = 0; i < sizeof NB / sizeof *NB; i++) { comma(NB[i]); comma(-NB[i]); }
    comma(-2147483647 - 1);
    for (int i = 0; i < 400; i++) { int sh = (int) (vh_rand() % 32); comma((int) (vh_rand() >> sh)); comma(-(int) (vh_rand() >> sh)); }
    /* unique ids */
    for (int i = 0; i < 8; i++) {
        char *u1 = qstrunique(i & 1 ? "seed" : NULL), *u2 = qstrunique(i & 1 ? "seed" : NULL);
        vh_where = "unique"; vh_bprintf(&b, "{\"fn\":\"unique\",\"s\":[],\"ok\":%s", vh_bool(u1 && u2 && strcmp(u1, u2) != 0));
        seq("out", (unsigned char *) (u1 ? u1 : ""), u1 ? strlen(u1) : 0, 1); tail(1);
        free(u1); free(u2);
    }
    /* formatted append/duplicate with results around the sizes of the formatting scratch buffer */
    static const int LN[] = {1020, 1022, 1023, 1024, 1025, 2046, 2047, 2048, 2049, 4095, 4096, 4097};
    for (size_t i = 0; i < sizeof LN / sizeof *LN; i++) for (int k = 0; k < 2; k++) {
        size_t n = (size_t) LN[i], pre = k ? 7 : 0;
        unsigned char *x = malloc(n + 1);
        for (size_t j = 0; j < n; j++) x[j] = (unsigned char) ('!' + (j * 7 + i) % 90);
        x[n] = 0;
        gbuf g = gnew(n + 1, x, pre); g.p[pre] = 0;
        vh_watchdog(10);
        char *r = qstrcatf(g.p, "%s", (char *) x + pre);
        alarm(0);
        head("catf", x, pre); seq("tok", x + pre, n - pre, 1); seq("out", (unsigned char *) g.p, strnlen(g.p, n + 1), 1); tail(gok(&g) && r == g.p);
        gfree(&g);
        char save = (char) x[pre]; char *prefix = malloc(pre + 1); memcpy(prefix, x, pre); prefix[pre] = 0; (void) save;
        vh_watchdog(10);
        char *q = qstrdupf("%s%s", prefix, (char *) x + pre);
        alarm(0);
        head("dupf", x, pre); seq("tok", x + pre, n - pre, 1); vh_bprintf(&b, ",\"ok\":%s", vh_bool(q != NULL)); seq("out", (unsigned char *) (q ? q : ""), q ? strlen(q) : 0, 1); tail(1);
        free(q); free(prefix); free(x);
    }
}

int main(int argc, char **argv) {
    if (argc < 4) return 2;
    vh_install_handlers();
    unsigned char x[64];
    if (!strcmp(argv[1], "enum") && argc >= 6) {
        int maxlen = atoi(argv[2]), shard = atoi(argv[3]), nsh = atoi(argv[4]);
        vh_open(argv[5]);
        long idx = 0;
        for (int len = 0; len <= maxlen; len++) {
            long total = 1; for (int i = 0; i < len; i++) total *= 9;
            for (long v = 0; v < total; v++, idx++) {
                if (idx % nsh != shard) continue;
                long w = v; for (int i = 0; i < len; i++) { x[i] = AL[w % 9]; w /= 9; }
                vh_watchdog(10); do_all(x, (size_t) len); do_small(x, (size_t) len); alarm(0);
            }
        }
    } else if (!strcmp(argv[1], "rand")) {
        int n = atoi(argv[2]); vh_srand((uint32_t) atoi(argv[3]) * 40503u + 5);
        vh_open(argv[4]);
        for (int i = 0; i < n; i++) {
            size_t len = 5 + vh_rand() % 40;
            for (size_t j = 0; j < len; j++) x[j] = (vh_rand() % 3) ? AL[vh_rand() % 9] : (unsigned char) (1 + vh_rand() % 255);
            vh_watchdog(10); do_all(x, len); do_small(x, len); alarm(0);
        }
    } else if (!strcmp(argv[1], "misc")) {
        vh_open(argv[3]);
        do_misc((uint32_t) atoi(argv[2]));
    } else return 2;
    vh_close();
    exit(0);
}
