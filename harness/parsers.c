/* Arbitrary-input driver for the INI-style (qconfig) and Apache-style (qaconf) parsers (C17).
 *   parsers ini   <maxlen> <start> <out>             every string over {$ { } a = \n [ ]} up to maxlen, from index <start>
 *   parsers aconf <maxlen> <start> <scratch> <out>   every string over {" ' \ space a \n < >} up to maxlen
 *   parsers inir  <n> <seed> <out>                   grammar-aware random INI documents (self/mutual references, nesting, long lines)
 *   parsers aconfr <n> <seed> <scratch> <out>        grammar-aware random Apache-style documents
 *   parsers inif  <n> <seed> <scratchdir> <out>      INI files with @INCLUDE lines (present / missing / self- and mutually including files,
 *                                                    absolute and relative names, over-long and padded lines) through qconfig_parse_file
 * Inputs live in exactly-sized heap buffers; every call runs under a watchdog; ${!cmd} can execute nothing
 * (link with --wrap=qsyscmd).  Records: {"fn":"ini"|"aconf","inp":[..],"n":entries|ret}. */
#include "qlibc.h"
#include "qlibcext.h"
#include "vh.h"
#include <stdlib.h>
#include <string.h>
#include <unistd.h>
#include <sys/stat.h>

char *__wrap_qsyscmd(const char *cmd) { (void) cmd; return strdup("cmd-output"); }

static vh_buf b;
static void rec(const char *fn, const unsigned char *in, size_t n, long r) {
    vh_bprintf(&b, "{\"fn\":\"%s\",\"inp\":[", fn);
    for (size_t i = 0; i < n && i < 400; i++) vh_bprintf(&b, "%s%d", i ? "," : "", in[i]);
    vh_bprintf(&b, "],\"len\":%zu,\"n\":%ld}", n, r);
    vh_bflush(&b);
}
static void run_ini(const unsigned char *in, size_t n) {
    char *s = malloc(n + 1); memcpy(s, in, n); s[n] = 0;
    vh_where = "ini"; vh_watchdog(8);
    qlisttbl_t *t = qconfig_parse_str(NULL, s, '=');
    alarm(0);
    long cnt = t ? (long) t->size(t) : -1;
    if (t) t->free(t);
    free(s);
    rec("ini", in, n, cnt);
}
/* ---- files with include lines ---- */
static void put_file(const char *dir, const char *name, const unsigned char *d, size_t n) {
    char path[600]; snprintf(path, sizeof path, "%s/%s", dir, name);
    FILE *f = fopen(path, "wb"); if (!f) _exit(2);
    fwrite(d, 1, n, f); fclose(f);
}
static size_t gen_ini(unsigned char *x, size_t cap);
static size_t gen_inif(unsigned char *x, size_t cap, const char *dir, const char *self) {
    size_t n = 0; int parts = 1 + (int) (vh_rand() % 6);
    for (int i = 0; i < parts; i++) {
        char line[9000]; size_t l = 0;
        unsigned r = vh_rand() % 12;
        static const char *names[] = {"inc1.conf", "inc2.conf", "missing.conf", "", "  inc1.conf  ", "sub/../inc1.conf"};
        if (r < 6) {
            const char *nm = r == 5 ? self : names[vh_rand() % 6];
            if (vh_rand() % 4 == 0) l = (size_t) snprintf(line, sizeof line, "@INCLUDE %s/%s", dir, nm);      /* absolute */
            else l = (size_t) snprintf(line, sizeof line, "@INCLUDE %s", nm);
            /* long lines are kept rare and the document small: a file that includes itself is spliced 128 times, and under the
             * sanitizer every splice costs time proportional to (document size)^2 / (length of the include line) */
            unsigned pad = (vh_rand() % 4 == 0 && n < 6000) ? 1 + vh_rand() % 4 : (vh_rand() % 2) * 3;
            if (pad == 4 && n > 0) pad = 1;
            /* padding that brings the line close to and beyond PATH_MAX */
            size_t want = pad == 0 ? 0 : pad == 1 ? 4070 + vh_rand() % 40 : pad == 2 ? 4093 + vh_rand() % 7 : pad == 3 ? vh_rand() % 300 : 5000 + vh_rand() % 3000;
            while (l < want && l + 2 < sizeof line) line[l++] = (vh_rand() % 9) ? ' ' : '\t';
            line[l++] = '\n';
        } else if (r == 6) { l = (size_t) snprintf(line, sizeof line, " @INCLUDE inc1.conf\n"); }            /* not at the start of a line */
        else if (r == 7) { l = (size_t) snprintf(line, sizeof line, "@INCLUDE "); size_t m = 4000 + vh_rand() % 200; while (l < m) line[l++] = 'n'; line[l++] = '\n'; }
        else if (r == 8) { l = (size_t) snprintf(line, sizeof line, "@INCLUDE inc1.conf"); }                     /* last line without LF */
        else if (r == 9) {                                       /* the directive quoted inside earlier lines, then for real: every occurrence is replaced */
            int q = 1 + (int) (vh_rand() % 3);
            for (int k = 0; k < q; k++) l += (size_t) snprintf(line + l, sizeof line - l, "# see also: @INCLUDE inc1.conf\n");
            l += (size_t) snprintf(line + l, sizeof line - l, "@INCLUDE inc1.conf\n");
        }
        else { l = gen_ini((unsigned char *) line, 600); if (l > 400) l = 400; }
        if (n + l < cap && n + l < 14000) { memcpy(x + n, line, l); n += l; }
    }
    return n;
}
static void run_inif(const char *dir, long idx) {
    static unsigned char doc[70000], inc[70000];
    char mkd[700]; snprintf(mkd, sizeof mkd, "%s/sub", dir); mkdir(mkd, 0700);
    /* inc1 is plain or includes inc2; inc2 is plain or includes inc1 (mutual) or itself */
    size_t l1 = (vh_rand() % 3) ? gen_ini(inc, 2000) : gen_inif(inc, 20000, dir, "inc2.conf");
    if (vh_rand() % 3 == 0) { memcpy(inc, "k=v\n", 4); l1 = 4; }          /* shorter than the directive that includes it: the text shrinks */
    put_file(dir, "inc1.conf", inc, l1);
    size_t l2 = (vh_rand() % 3) ? gen_ini(inc, 2000) : gen_inif(inc, 20000, dir, "inc2.conf"); put_file(dir, "inc2.conf", inc, l2);
    size_t n = gen_inif(doc, sizeof doc, dir, "main.conf"); put_file(dir, "main.conf", doc, n);
    char path[700]; snprintf(path, sizeof path, "%s/main.conf", dir);
    vh_where = "inif"; vh_step = idx; vh_watchdog(90);
    qlisttbl_t *t = qconfig_parse_file(NULL, path, '=');
    alarm(0);
    long cnt = t ? (long) t->size(t) : -1;
    if (t) t->free(t);
    rec("ini", doc, n, cnt);
}
static QAC_CB(cb) { (void) data; (void) userdata; return NULL; }
static qaconf_option_t OPTS[] = {
    {"a", QAC_TAKEALL, cb, 0, QAC_SECTION_ALL}, {"aa", QAC_TAKE_STR, cb, 1, QAC_SECTION_ALL},
    {"Listen", QAC_TAKE_INT, cb, 0, QAC_SECTION_ALL}, {"Flag", QAC_TAKE_BOOL, cb, 0, QAC_SECTION_ALL},
    {"Sec", QAC_TAKE_STR, cb, 2, QAC_SECTION_ALL}, {"Mix", QAC_TAKEALL | QAC_A1_BOOL | QAC_A2_INT | QAC_AA_FLOAT, cb, 0, QAC_SECTION_ALL},
    QAC_OPTION_END };
/* the same table with every argument of "a" (the one name the enumerated alphabet can spell) declared boolean, integer, float: the
 * type checks and the in-place normalisation of booleans then see every token the tokenizer can produce, empty ones included */
static qaconf_option_t OPTS_B[] = {
    {"a", QAC_TAKEALL | QAC_AA_BOOL, cb, 0, QAC_SECTION_ALL}, {"aa", QAC_TAKE_BOOL, cb, 1, QAC_SECTION_ALL},
    {"Listen", QAC_TAKE_INT, cb, 0, QAC_SECTION_ALL}, {"Flag", QAC_TAKE_BOOL, cb, 3, QAC_SECTION_ALL},
    {"Sec", QAC_TAKE_STR, cb, 2, QAC_SECTION_ALL}, {"Mix", QAC_TAKEALL | QAC_A1_BOOL | QAC_A2_INT | QAC_AA_FLOAT, cb, 4, QAC_SECTION_ALL},
    QAC_OPTION_END };
static qaconf_option_t OPTS_N[] = {
    {"a", QAC_TAKEALL | QAC_A1_INT | QAC_AA_FLOAT, cb, 0, QAC_SECTION_ALL}, {"aa", QAC_TAKE_FLOAT, cb, 1, QAC_SECTION_ALL},
    {"Listen", QAC_TAKE_INT, cb, 5, QAC_SECTION_ALL}, {"Flag", QAC_TAKE_BOOL, cb, 0, QAC_SECTION_ALL},
    {"Sec", QAC_TAKE_STR, cb, 2, QAC_SECTION_ALL}, {"Mix", QAC_TAKEALL | QAC_A1_BOOL | QAC_A2_INT | QAC_AA_FLOAT, cb, 0, QAC_SECTION_ALL},
    QAC_OPTION_END };
static qaconf_option_t *TABLE = OPTS;
static void run_aconf1(const unsigned char *in, size_t n, const char *scratch, int flags);
static void run_aconf(const unsigned char *in, size_t n, const char *scratch, int flags) {
    TABLE = OPTS; run_aconf1(in, n, scratch, flags);
    /* one record per input (restarts count lines): the typed tables run for their memory safety and termination only */
    TABLE = OPTS_B; run_aconf1(in, n, scratch, flags);
    TABLE = OPTS_N; run_aconf1(in, n, scratch, flags);
    TABLE = OPTS;
}
static void run_aconf1(const unsigned char *in, size_t n, const char *scratch, int flags) {
    FILE *f = fopen(scratch, "wb"); if (!f) _exit(2);
    fwrite(in, 1, n, f); fclose(f);
    vh_where = "aconf"; vh_watchdog(8);
    qaconf_t *c = qaconf();
    long r = -9;
    if (c) {
        c->addoptions(c, TABLE);
        r = c->parse(c, scratch, (uint8_t) flags);
        (void) c->errmsg(c);
        c->free(c);
    }
    alarm(0);
    if (TABLE == OPTS) rec("aconf", in, n, r);
}
static const unsigned char A_INI[8] = {'$', '{', '}', 'a', '=', '\n', '[', ']'};
static const unsigned char A_ACONF[8] = {'"', '\'', '\\', ' ', 'a', '\n', '<', '>'};
static size_t nth(const unsigned char *alpha, long idx, int maxlen, unsigned char *x) {
    /* idx enumerates strings by length then value; returns length or (size_t)-1 past the end */
    for (int len = 0; len <= maxlen; len++) {
        long total = 1; for (int i = 0; i < len; i++) total *= 8;
        if (idx < total) { for (int i = 0; i < len; i++) { x[i] = alpha[idx & 7]; idx >>= 3; } return (size_t) len; }
        idx -= total;
    }
    return (size_t) -1;
}
static size_t gen_ini(unsigned char *x, size_t cap) {
    static const char *frag[] = {"a=${a}\n", "b=${a}\n", "a=${b}\n", "[s]\n", "[]\n", "x = 1\n", "# c\n", "${", "}", "${%HOME}", "${!echo hi}", "${a${b}}",
                                 "k=v ${k} ${k}\n", "[ s ] \n", "s.k=${s.k}x\n", "=\n", "\n\n", "  ", "[unterminated\n", "a=${${${\n", "}}}\n", "${}\n", "${%}\n", "${!}\n"};
    size_t n = 0; int parts = 1 + (int) (vh_rand() % 10);
    for (int i = 0; i < parts; i++) {
        const char *f = frag[vh_rand() % (sizeof frag / sizeof *frag)];
        size_t l = strlen(f);
        if (vh_rand() % 17 == 0) { size_t m = 200 + vh_rand() % 3000; if (n + m + 2 < cap) { memset(x + n, 'z', m); n += m; } }
        if (n + l < cap) { memcpy(x + n, f, l); n += l; }
    }
    return n;
}
static size_t gen_aconf(unsigned char *x, size_t cap) {
    static const char *frag[] = {"a b c\n", "<Sec x>\n", "</Sec>\n", "a \"q w\" 'e r'\n", "a \"unterminated\n", "a 'x\\\n", "a \"x\\", "Flag on\n", "Flag maybe\n", "Listen 12\n",
                                 "Listen x\n", "Mix yes 3 1.5 2.5\n", "# comment\n", "<Sec>\n", "</Other>\n", "<Sec a b>\n", "   \t \n", "\\\n", "a \\\n b\n", "<", ">", "\"", "'", "aa v\n", "unknown 1\n",
                                 "<Flag  >\n", "<Flag \t>\n", "<Flag on >\n", "<Flag \"off\" \t >\n", "<Mix  >\n", "<Mix yes  >\n", "Flag  \n", "<Listen  >\n", "<Listen 5 >\n", "Flag \"\"\n", "<Flag \"\">\n"};
    size_t n = 0; int parts = 1 + (int) (vh_rand() % 12);
    for (int i = 0; i < parts; i++) {
        const char *f = frag[vh_rand() % (sizeof frag / sizeof *frag)];
        size_t l = strlen(f);
        if (vh_rand() % 19 == 0) { size_t m = 500 + vh_rand() % 6000; if (n + m + 2 < cap) { memset(x + n, 'w', m); n += m; } }
        if (n + l < cap) { memcpy(x + n, f, l); n += l; }
    }
    return n;
}

int main(int argc, char **argv) {
    if (argc < 5) return 2;
    vh_install_handlers();
    unsigned char x[16];
    static unsigned char big[70000];
    if (!strcmp(argv[1], "ini")) {
        int maxlen = atoi(argv[2]); long start = atol(argv[3]);
        vh_open(argv[4]);
        for (long idx = start;; idx++) { size_t n = nth(A_INI, idx, maxlen, x); if (n == (size_t) -1) break; vh_step = idx; run_ini(x, n); }
    } else if (!strcmp(argv[1], "aconf") && argc >= 6) {
        int maxlen = atoi(argv[2]); long start = atol(argv[3]);
        vh_open(argv[5]);
        for (long idx = start;; idx++) { size_t n = nth(A_ACONF, idx, maxlen, x); if (n == (size_t) -1) break; vh_step = idx; run_aconf(x, n, argv[4], (int) (idx & 3)); }
    } else if (!strcmp(argv[1], "inir")) {
        int n = atoi(argv[2]); vh_srand((uint32_t) atoi(argv[3]) * 2654435761u + 1);
        vh_open(argv[4]);
        for (int i = 0; i < n; i++) { vh_step = i; size_t l = gen_ini(big, sizeof big); run_ini(big, l); }
    } else if (!strcmp(argv[1], "aconfr") && argc >= 6) {
        int n = atoi(argv[2]); vh_srand((uint32_t) atoi(argv[3]) * 2246822519u + 7);
        vh_open(argv[5]);
        for (int i = 0; i < n; i++) { vh_step = i; size_t l = gen_aconf(big, sizeof big); run_aconf(big, l, argv[4], (int) (vh_rand() & 3)); }
    } else if (!strcmp(argv[1], "inif") && argc >= 6) {
        int n = atoi(argv[2]); vh_srand((uint32_t) atoi(argv[3]) * 3266489917u + 11);
        mkdir(argv[4], 0700);
        vh_open(argv[5]);
        for (int i = 0; i < n; i++) run_inif(argv[4], i);
    } else return 2;
    vh_close();
    exit(0);
}
