/* Drives the real qtokenbucket under a scripted clock and records ndjson events for TokenBucketTrace.tla.
 * usage: tokbucket <script> <trace>      (link with -Wl,--wrap=gettimeofday)
 * script lines: "init <init> <max> <rate>" | "tick <ms>" | "consume <n>" | "wait <n>" */
#include "qlibc.h"
#include "qlibcext.h"
#include "vh.h"
#include <stdlib.h>
#include <string.h>
#include <math.h>
#include <sys/time.h>

static long long now_ms = 1700000000123LL;          /* the scripted clock */
int __wrap_gettimeofday(struct timeval *tv, void *tz) {
    (void) tz;
    tv->tv_sec = (time_t) (now_ms / 1000); tv->tv_usec = (suseconds_t) ((now_ms % 1000) * 1000 + 7);
    return 0;
}

int main(int argc, char **argv) {
    if (argc < 3) return 2;
    vh_install_handlers();
    FILE *sf = fopen(argv[1], "r"); if (!sf) return 2;
    vh_open(argv[2]);
    vh_buf b = {0};
    char line[256], op[32];
    qtokenbucket_t tb; memset(&tb, 0, sizeof tb);
    while (fgets(line, sizeof line, sf)) {
        long a = 0, m = 0, r = 0;
        if (sscanf(line, "%31s %ld %ld %ld", op, &a, &m, &r) < 1) continue;
        vh_step++; vh_where = op; vh_watchdog(5);
        if (!strcmp(op, "init")) {
            qtokenbucket_init(&tb, (int) a, (int) m, (int) r);
            vh_bprintf(&b, "{\"op\":\"init\",\"init\":%ld,\"max\":%ld,\"rate\":%ld}", a, m, r);
        } else if (!strcmp(op, "tick")) {
            now_ms += a;
            vh_bprintf(&b, "{\"op\":\"tick\",\"n\":%ld}", a);
        } else if (!strcmp(op, "consume")) {
            bool ok = qtokenbucket_consume(&tb, (int) a);
            double before = ok ? tb.tokens + (double) a : tb.tokens;          /* level the comparison saw */
            vh_bprintf(&b, "{\"op\":\"consume\",\"n\":%ld,\"ok\":%s,\"mt\":%lld,\"near\":%s}", a, vh_bool(ok), llround(tb.tokens * 1000.0),
                       vh_bool(before != (double) a && fabs(before - (double) a) < 1e-6));       /* an inexact level right at the boundary */
        } else if (!strcmp(op, "wait")) {
            long w = qtokenbucket_waittime(&tb, (int) a);
            double t = tb.tokens;
            vh_bprintf(&b, "{\"op\":\"wait\",\"n\":%ld,\"w\":%ld,\"mt\":%lld,\"near\":%s}", a, w, llround(t * 1000.0),
                       vh_bool(t != round(t) && fabs(t - round(t)) < 1e-6));
        } else continue;
        alarm(0);
        vh_bflush(&b);
    }
    vh_close();
    return 0;
}
