/* Lock-balance driver for qlog (C14): qlogdrv <nseg> <seed> <dir> <flags: a|f|-> <out> */
#include "qlibc.h"
#include "qlibcext.h"
#include "vh.h"
#include <stdlib.h>
#include <string.h>
#include <unistd.h>

int main(int argc, char **argv) {
    if (argc < 6) return 2;
    int nseg = atoi(argv[1]); vh_srand((uint32_t) atoi(argv[2]) * 7919u + 3);
    const char *dir = argv[3];
    int inj_at = strchr(argv[4], 'a') != NULL, inj_from = strchr(argv[4], 'f') != NULL;
    vh_open(argv[5]);
    vh_install_handlers();
    vh_ledger_on = 1; vh_quarantine = 1;
    vh_buf b = {0};
    FILE *dupfp = fopen("/dev/null", "w");
    for (int s = 0; s < nseg; s++) {
        char path[512]; snprintf(path, sizeof path, "%s/qlog-%d-%d.log", dir, (int) getpid(), s);
        unlink(path);
        long mark = vh_ledger_mark();
        /* a 1-second rotation interval makes some writes cross a rotation (same file name, so content stays in one file) */
        qlog_t *L = qlog(path, 0644, (s % 3 == 0) ? 1 : 0, QLOG_OPT_THREADSAFE | ((s & 1) ? QLOG_OPT_FLUSH : 0));
        if (!L) return 2;
        vh_emit("{\"op\":\"reset\"}");
        int steps = 20 + (int) (vh_rand() % 40);
        for (int i = 0; i < steps; i++) {
            unsigned r = vh_rand() % 10;
            const char *op = r < 4 ? "write" : r < 7 ? "writef" : r < 8 ? "duplicate" : "flush";
            int v = 1 + (int) (vh_rand() % 1000);
            char msg[64]; snprintf(msg, sizeof msg, "line %d", v);
            int inject = (inj_at || inj_from) && !strcmp(op, "writef");
            for (long k = 1;; k++) {
                if (inject && k > 20) inject = 0;
                long lkb = VH_LOCK_BALANCE();
                vh_where = op; vh_watchdog(10);
                vh_call_begin();
                if (inject) { if (inj_at) vh_fail_at = k; else vh_fail_from = k; }
                int ok = 1;
                if (!strcmp(op, "write")) ok = L->write(L, msg);
                else if (!strcmp(op, "writef")) ok = L->writef(L, "line %d", v);
                else if (!strcmp(op, "duplicate")) ok = L->duplicate(L, (vh_rand() & 1) ? dupfp : NULL, (vh_rand() & 2) != 0);
                else L->flush(L);
                long nfail = vh_failed;
                vh_call_end(); alarm(0);
                vh_emit("{\"op\":\"%s\",\"v\":%d,\"inj\":%ld,\"nfail\":%ld,\"ok\":%s,\"lkd\":%ld}", op, v, inject ? k : 0L, nfail, vh_bool(ok),
                        VH_LOCK_BALANCE() - lkb);
                if (!inject || nfail == 0 || ok) break;
            }
            if (s % 3 == 0 && i % 7 == 0) usleep(0), sleep(0);
        }
        long lkb = VH_LOCK_BALANCE();
        L->free(L);
        long lkd = VH_LOCK_BALANCE() - lkb;
        vh_bprintf(&b, "{\"op\":\"free\",\"lkd\":%ld,\"live\":%ld,\"content\":[", lkd, vh_live_since(mark));
        FILE *f = fopen(path, "r"); char line[256]; int first = 1;
        while (f && fgets(line, sizeof line, f)) { int x = 0; if (sscanf(line, "line %d", &x) == 1) { vh_bprintf(&b, "%s%d", first ? "" : ",", x); first = 0; } }
        if (f) fclose(f);
        unlink(path);
        vh_bprintf(&b, "]}"); vh_bflush(&b);
    }
    vh_close();
    exit(0);
}
