/* Record generator for C18: calls the real hash functions and logs ndjson records for HashTrace.tla.
 *   hashes gen <seed> <shard> <nshards> <scratchfile> <out> <len> [<len> ...]
 * For each length and content class (random, all-zero, all-0xFF, embedded NULs) and each function, the input is
 * hashed at every buffer alignment 0..7 in an exactly-sized heap buffer (so a sanitizer build sees any read past
 * the end), twice with different bytes in front of it; all outputs are logged.  MD5 is additionally computed over
 * byte ranges of a file (qhashmd5_file). */
#include "qlibc.h"
#include "vh.h"
#include <sys/mman.h>
#include <stdlib.h>
#include <string.h>
#include <unistd.h>
#include <fcntl.h>

static vh_buf b;
static void seq(const unsigned char *p, size_t n) {
    vh_bprintf(&b, "[");
    for (size_t i = 0; i < n; i++) vh_bprintf(&b, "%s%d", i ? "," : "", p[i]);
    vh_bprintf(&b, "]");
}
static size_t call(int fn, const void *p, size_t n, unsigned char *out) {
    if (fn == 0) { qhashmd5(p, n, out); return 16; }
    if (fn == 1) { uint32_t h = qhashmurmur3_32(p, n); memcpy(out, &h, 4); return 4; }
    if (fn == 2) { memset(out, 0, 16); qhashmurmur3_128(p, n, out); return 16; }
    if (fn == 3) { uint32_t h = qhashfnv1_32(p, n); memcpy(out, &h, 4); return 4; }
    uint64_t h = qhashfnv1_64(p, n); memcpy(out, &h, 8); return 8;
}
static const char *FN[] = {"md5", "m32", "m128", "fnv32", "fnv64"};

int main(int argc, char **argv) {
    if (argc < 8) return 2;
    vh_srand((uint32_t) atoi(argv[2]) * 2654435761u + 99);
    int shard = atoi(argv[3]), nsh = atoi(argv[4]);
    const char *scratch = argv[5];
    vh_install_handlers();
    vh_open(argv[6]);
    long idx = 0;
    for (int a = 7; a < argc; a++) {
        size_t L = (size_t) atol(argv[a]);
        for (int cls = 0; cls < 4; cls++) {
            if ((idx++ % nsh) != shard) { for (size_t j = 0; j < L; j++) (void) vh_rand(); continue; }
            unsigned char *inp = malloc(L ? L : 1);
            for (size_t j = 0; j < L; j++) {
                unsigned r = vh_rand();
                inp[j] = cls == 0 ? (unsigned char) (r >> 7) : cls == 1 ? 0 : cls == 2 ? 0xFF : ((r >> 5) % 3 == 0 ? 0 : (unsigned char) (r >> 9));
            }
            for (int fn = 0; fn < 5; fn++) {
                vh_where = FN[fn];
                vh_bprintf(&b, "{\"fn\":\"%s\",\"inp\":", FN[fn]); seq(inp, L);
                vh_bprintf(&b, ",\"outs\":[");
                int first = 1;
                for (int al = 0; al < 8; al++) for (int rep = 0; rep < 2; rep++) {
                    /* exactly-sized buffer: the input ends where the allocation ends; different bytes in front each time */
                    unsigned char *buf = malloc(L + (size_t) al + 8);
                    unsigned char *p = buf + 8 + al - 8 + 0;
                    buf = realloc(buf, L + (size_t) al + 0 ? L + (size_t) al : 1);
                    p = buf + al;
                    memset(buf, rep ? 0xA7 : 0x00, (size_t) al);
                    memcpy(p, inp, L);
                    unsigned char out[16];
                    vh_watchdog(5);
                    size_t on = call(fn, p, L, out);
                    alarm(0);
                    vh_bprintf(&b, "%s", first ? "" : ","); first = 0;
                    seq(out, on);
                    free(buf);
                }
                vh_bprintf(&b, "]}"); vh_bflush(&b);
            }
            /* MD5 of a byte range of a file: the slice [off, off+len) of a file holding prefix + input + suffix */
            if (L > 0) {
                size_t pre = vh_rand() % 70000, suf = vh_rand() % 100;
                int fd = open(scratch, O_WRONLY | O_CREAT | O_TRUNC, 0644);
                unsigned char *junk = malloc(pre + suf + 1);
                for (size_t j = 0; j < pre + suf; j++) junk[j] = (unsigned char) vh_rand();
                if (write(fd, junk, pre) < 0 || write(fd, inp, L) < 0 || write(fd, junk + pre, suf) < 0) _exit(2);
                close(fd); free(junk);
                unsigned char out[16]; memset(out, 0, 16);
                vh_where = "md5file";
                bool ok = qhashmd5_file(scratch, (off_t) pre, (ssize_t) L, out);
                vh_bprintf(&b, "{\"fn\":\"md5\",\"file\":true,\"inp\":"); seq(inp, L);
                vh_bprintf(&b, ",\"outs\":["); if (ok) seq(out, 16); vh_bprintf(&b, "]}"); vh_bflush(&b);
            }
            free(inp);
        }
    }
    /* large byte ranges of a file (several internal read chunks, ranges ending before the end of the file, ranges running to the
     * end with length 0): too long to evaluate MD5 in TLC for every one, so the record carries the in-memory digest of the same
     * bytes (a function validated against the reference on its own) and TLC demands equality */
    if (shard == 0) {
        static const size_t BIG[] = {32767, 32768, 32769, 65535, 65536, 65537, 98304, 100001, 163840 + 77};
        for (size_t k = 0; k < sizeof BIG / sizeof *BIG; k++) {
            size_t L = BIG[k], pre = vh_rand() % 40000, suf = 1 + vh_rand() % 5000;
            unsigned char *all = malloc(pre + L + suf);
            for (size_t j = 0; j < pre + L + suf; j++) all[j] = (unsigned char) (vh_rand() >> 3);
            int fd = open(scratch, O_WRONLY | O_CREAT | O_TRUNC, 0644);
            if (write(fd, all, pre + L + suf) < 0) _exit(2);
            close(fd);
            for (int toend = 0; toend < 2; toend++) {
                size_t len = toend ? L + suf : L;
                unsigned char mem[16], out[16]; memset(out, 0, 16);
                qhashmd5(all + pre, len, mem);
                vh_where = "md5file"; vh_watchdog(10);
                bool ok = qhashmd5_file(scratch, (off_t) pre, toend ? 0 : (ssize_t) L, out);
                alarm(0);
                vh_bprintf(&b, "{\"fn\":\"md5rel\",\"file\":true,\"biglen\":%zu,\"toend\":%d,\"inp\":[],\"mem\":", len, toend); seq(mem, 16);
                vh_bprintf(&b, ",\"outs\":["); if (ok) seq(out, 16); vh_bprintf(&b, "]}"); vh_bflush(&b);
            }
            free(all);
        }
    }
    /* one call over 2^29 bytes and more: the bit count MD5 appends no longer fits 32 bits.  The input is a never-written
     * read-only mapping of zero pages; the digests of such inputs are constants of HashTrace.tla (taken from coreutils md5sum) */
    if (shard == 1 % nsh) {
        static const size_t Z[] = {536870911u, 536870912u, 536870975u};
        void *z = mmap(NULL, 536870975u + 4096, PROT_READ, MAP_PRIVATE | MAP_ANONYMOUS | MAP_NORESERVE, -1, 0);
        if (z != MAP_FAILED) {
            for (size_t k = 0; k < 3; k++) {
                unsigned char out[16]; memset(out, 0, 16);
                vh_where = "md5zero"; vh_watchdog(120);
                bool ok = qhashmd5(z, Z[k], out);
                alarm(0);
                vh_bprintf(&b, "{\"fn\":\"md5zero\",\"file\":false,\"zlen\":%zu,\"inp\":[],\"outs\":[", Z[k]); if (ok) seq(out, 16); vh_bprintf(&b, "]}"); vh_bflush(&b);
            }
            munmap(z, 536870975u + 4096);
        }
    }
    vh_close();
    exit(0);
}
