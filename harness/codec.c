/* Record generator for C16/C17: calls the real encoders/decoders/parsers and logs ndjson records for CodecTrace.tla.
 *   codec enum <maxlen> <fns: b,h,u letters> <out> [shard nshards]   every byte string of length 0..maxlen
 *   codec rand <n> <maxlen> <seed> <out>             random byte strings (all three codecs) and query lists
 *   codec dec <alphabet-id> <maxlen> <out>           every string over the format's significant bytes fed to the in-place decoders
 * All inputs live in exactly-sized heap buffers, so a sanitizer build sees any access past the terminator. */
#include "qlibc.h"
#include "vh.h"
#include <stdlib.h>
#include <string.h>
#include <ctype.h>

static vh_buf b;
static void seq(const char *name, const unsigned char *p, size_t n, int comma) {
    vh_bprintf(&b, "%s\"%s\":[", comma ? "," : "", name);
    for (size_t i = 0; i < n; i++) vh_bprintf(&b, "%s%d", i ? "," : "", p[i]);
    vh_bprintf(&b, "]");
}
static char *exact(const void *p, size_t n) { char *q = malloc(n + 1); memcpy(q, p, n); q[n] = 0; return q; }

static void rec_b64(const unsigned char *in, size_t n) {
    unsigned char *src = malloc(n ? n : 1); memcpy(src, in, n);
    char *e = qbase64_encode(src, n);
    free(src);
    char *d = exact(e, strlen(e));
    size_t dn = qbase64_decode(d);
    vh_bprintf(&b, "{\"fn\":\"b64\"");
    seq("inp", in, n, 1); seq("enc", (unsigned char *) e, strlen(e), 1); seq("dec", (unsigned char *) d, dn, 1);
    vh_bprintf(&b, "}"); vh_bflush(&b);
    free(e); free(d);
}
static void rec_hex(const unsigned char *in, size_t n) {
    unsigned char *src = malloc(n ? n : 1); memcpy(src, in, n);
    char *e = qhex_encode(src, n);
    free(src);
    size_t el = strlen(e);
    char *d = exact(e, el); size_t dn = qhex_decode(d);
    char *u = exact(e, el); for (size_t i = 0; i < el; i++) u[i] = (char) toupper((unsigned char) u[i]);
    size_t un = qhex_decode(u);
    vh_bprintf(&b, "{\"fn\":\"hex\"");
    seq("inp", in, n, 1); seq("enc", (unsigned char *) e, el, 1); seq("dec", (unsigned char *) d, dn, 1); seq("alt", (unsigned char *) u, un, 1);
    vh_bprintf(&b, "}"); vh_bflush(&b);
    free(e); free(d); free(u);
}
static void rec_url(const unsigned char *in, size_t n) {
    unsigned char *src = malloc(n ? n : 1); memcpy(src, in, n);
    char *e = qurl_encode(src, n);
    free(src);
    size_t el = strlen(e);
    char *d = exact(e, el); size_t dn = qurl_decode(d);
    /* alternate spelling: upper-case hex digits, '+' instead of %20 */
    char *u = malloc(el + 1); size_t ul = 0;
    for (size_t i = 0; i < el; i++) {
        if (e[i] == '%' && i + 2 < el + 0 && e[i + 1] == '2' && e[i + 2] == '0') { u[ul++] = '+'; i += 2; }
        else if (e[i] == '%' && i + 2 < el + 0) { u[ul++] = '%'; u[ul++] = (char) toupper((unsigned char) e[i + 1]); u[ul++] = (char) toupper((unsigned char) e[i + 2]); i += 2; }
        else u[ul++] = e[i];
    }
    u[ul] = 0;
    char *u2 = exact(u, ul); size_t un = qurl_decode(u2);
    vh_bprintf(&b, "{\"fn\":\"url\"");
    seq("inp", in, n, 1); seq("enc", (unsigned char *) e, el, 1); seq("dec", (unsigned char *) d, dn, 1); seq("alt", (unsigned char *) u2, un, 1);
    vh_bprintf(&b, "}"); vh_bflush(&b);
    free(e); free(d); free(u); free(u2);
}
static void rec_query(void) {
    int np = (int) (vh_rand() % 6);
    unsigned char names[8][24], vals[8][24]; size_t nl[8], vl[8];
    vh_buf q = {0};
    vh_bprintf(&q, "%s", "");
    for (int i = 0; i < np; i++) {
        nl[i] = 1 + vh_rand() % 8; vl[i] = vh_rand() % 10;
        if (vh_rand() % 6 == 0) { nl[i] = 0; vl[i] = 1 + vh_rand() % 9; }      /* a value without a name ("=v") */
        for (size_t j = 0; j < nl[i]; j++) { unsigned c = 1 + vh_rand() % 255; if (j == 0 || j == nl[i] - 1) while (isspace((int) c)) c = 1 + vh_rand() % 255; names[i][j] = (unsigned char) c; }
        for (size_t j = 0; j < vl[i]; j++) vals[i][j] = (unsigned char) (1 + vh_rand() % 255);
        char *en = qurl_encode(names[i], nl[i]), *ev = qurl_encode(vals[i], vl[i]);
        vh_bprintf(&q, "%s%s=%s", i ? "&" : "", en ? en : "", ev ? ev : "");
        free(en); free(ev);
    }
    char *query = exact(q.p, q.n);
    int count = -1;
    qlisttbl_t *t = qparse_queries(NULL, query, '=', '&', &count);
    vh_bprintf(&b, "{\"fn\":\"query\",\"pairs\":[");
    for (int i = 0; i < np; i++) {
        vh_bprintf(&b, "%s[[", i ? "," : "");
        for (size_t j = 0; j < nl[i]; j++) vh_bprintf(&b, "%s%d", j ? "," : "", names[i][j]);
        vh_bprintf(&b, "],[");
        for (size_t j = 0; j < vl[i]; j++) vh_bprintf(&b, "%s%d", j ? "," : "", vals[i][j]);
        vh_bprintf(&b, "]]");
    }
    vh_bprintf(&b, "],\"parsed\":[");
    int first = 1;
    for (qlisttbl_obj_t *o = t ? t->first : NULL; o; o = o->next) {
        vh_bprintf(&b, "%s[[", first ? "" : ","); first = 0;
        for (size_t j = 0; j < strlen(o->name); j++) vh_bprintf(&b, "%s%d", j ? "," : "", (unsigned char) o->name[j]);
        vh_bprintf(&b, "],[");
        for (size_t j = 0; j + 1 < o->size; j++) vh_bprintf(&b, "%s%d", j ? "," : "", ((unsigned char *) o->data)[j]);
        vh_bprintf(&b, "]]");
    }
    vh_bprintf(&b, "],\"count\":%d}", count); vh_bflush(&b);
    if (t) t->free(t);
    free(query); vh_free(q.p);
}
/* in-place decoders on arbitrary input (C17) */
static void rec_dec(const char *fn, const unsigned char *in, size_t n) {
    char *d = exact(in, n);
    vh_where = fn;
    vh_watchdog(6);
    size_t dn = !strcmp(fn, "urldec") ? qurl_decode(d) : !strcmp(fn, "hexdec") ? qhex_decode(d) : qbase64_decode(d);
    alarm(0);
    vh_bprintf(&b, "{\"fn\":\"%s\"", fn);
    seq("inp", in, n, 1);
    seq("out", (unsigned char *) d, dn <= n ? dn : n, 1);       /* never read more than the buffer holds */
    vh_bprintf(&b, ",\"olen\":%zu}", dn); vh_bflush(&b);
    free(d);
}
static void rec_parse(const unsigned char *in, size_t n) {
    char *qs = exact(in, n);
    vh_where = "parse"; vh_watchdog(6);
    int count = 0;
    qlisttbl_t *t = qparse_queries(NULL, qs, '=', '&', &count);
    alarm(0);
    vh_bprintf(&b, "{\"fn\":\"parse\""); seq("inp", in, n, 1); vh_bprintf(&b, ",\"count\":%d}", count); vh_bflush(&b);
    if (t) t->free(t);
    free(qs);
}
static const unsigned char ALPHA[3][9] = {      /* each with one byte >= 0x80 (lookup tables indexed by a signed char) */
    {'%', '+', 'a', 'F', 'g', '4', '=', '&', 0xFF},     /* URL / query */
    {'0', 'a', 'F', 'g', ' ', '9', 'x', 'f', 0x80},     /* hex */
    {'A', '=', '/', '+', '-', 'z', ' ', '9', 0xE9},     /* base64 */
};

int main(int argc, char **argv) {
    if (argc < 5) return 2;
    vh_install_handlers();
    if (!strcmp(argv[1], "enum")) {
        int maxlen = atoi(argv[2]); const char *fns = argv[3];
        vh_open(argv[4]);
        int shard = argc > 6 ? atoi(argv[5]) : 0, nsh = argc > 6 ? atoi(argv[6]) : 1;
        unsigned char x[4];
        long idx = 0;
        for (int len = 0; len <= maxlen; len++) {
            long total = 1; for (int i = 0; i < len; i++) total *= 256;
            for (long v = 0; v < total; v++, idx++) {
                if (idx % nsh != shard) continue;
                long w = v; for (int i = 0; i < len; i++) { x[i] = (unsigned char) (w & 255); w >>= 8; }
                if (strchr(fns, 'b')) rec_b64(x, (size_t) len);
                if (strchr(fns, 'h')) rec_hex(x, (size_t) len);
                if (strchr(fns, 'u')) rec_url(x, (size_t) len);
            }
        }
    } else if (!strcmp(argv[1], "rand") && argc >= 6) {
        int n = atoi(argv[2]), maxlen = atoi(argv[3]); vh_srand((uint32_t) atoi(argv[4]));
        vh_open(argv[5]);
        unsigned char *x = malloc((size_t) maxlen + 1);
        for (int i = 0; i < n; i++) {
            size_t len = (i % 7 == 0) ? (size_t) maxlen - vh_rand() % 4 : vh_rand() % ((unsigned) maxlen + 1);
            int cls = (int) (vh_rand() % 4);
            for (size_t j = 0; j < len; j++) x[j] = cls == 0 ? (unsigned char) vh_rand() : cls == 1 ? (unsigned char) (32 + vh_rand() % 95) : cls == 2 ? (unsigned char) (vh_rand() % 3 ? 0 : 255) : (unsigned char) "%+&=?#\"<> \n\x7f\x80"[vh_rand() % 13];
            rec_b64(x, len); rec_hex(x, len); rec_url(x, len);
            if (i % 4 == 0) rec_query();
        }
        free(x);
    } else if (!strcmp(argv[1], "dec")) {
        int aid = atoi(argv[2]), maxlen = atoi(argv[3]);
        vh_open(argv[4]);
        unsigned char x[8];
        for (int len = 0; len <= maxlen; len++) {
            long total = 1; for (int i = 0; i < len; i++) total *= 9;
            for (long v = 0; v < total; v++) {
                long w = v; for (int i = 0; i < len; i++) { x[i] = ALPHA[aid][w % 9]; w /= 9; }
                if (aid == 0) { rec_dec("urldec", x, (size_t) len); rec_parse(x, (size_t) len); }
                else if (aid == 1) rec_dec("hexdec", x, (size_t) len);
                else rec_dec("b64dec", x, (size_t) len);
            }
        }
    } else return 2;
    vh_close();
    exit(0);
}
