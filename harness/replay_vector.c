/* Replays operation scripts (tours of the Vector.tla transition graph, random histories) on the
 * real qvector and records one typed ndjson event per call for VectorTrace.tla.
 * usage: replay_vector <script> <trace> <objsize> <initcap> <exact|linear|double> <profile> <flags>
 *   flags: t = QVECTOR_THREADSAFE, a = inject single allocation failures, f = inject "all from k-th fail" */
#include "qlibc.h"
#include "vh.h"
#include <stdlib.h>
#include <string.h>
#include <errno.h>

static size_t OBJ;
static int profile;
#define MAXID 8
/* value bytes for an id under the current profile (profile 1: id 1 is all zero bytes) */
static void mk(unsigned char *b, int id) {
    for (size_t j = 0; j < OBJ; j++) {
        if (profile == 1) b[j] = (id == 1) ? 0 : (unsigned char) (id * 37 + j * 3 + 1);
        else if (profile == 2) b[j] = (unsigned char) ((j == 0 ? id : 0));           /* differ in the first byte only, rest NUL */
        else if (profile == 3) b[j] = (unsigned char) ((j == OBJ - 1 ? id : 0xEE));   /* differ in the last byte only */
        else if (profile == 4) b[j] = (unsigned char) (OBJ == 1 ? id : j == 0 ? 0x41 : j == 1 ? 0 : j == OBJ - 1 ? id : 0x42);   /* equal up to an embedded NUL */
        else b[j] = (unsigned char) (id * 37 + j * 3 + 1);
    }
}
static int idof(const unsigned char *b) {
    if (!b) return 0;
    unsigned char t[256];
    for (int id = 1; id <= MAXID; id++) { mk(t, id); if (!memcmp(t, b, OBJ)) return id; }
    return -1;
}
/* copies handed out by copying accessors, re-inspected after the container is gone (C12) */
static struct { unsigned char *p; int id; size_t cnt; int ids[8]; } kept[64];
static int nkept;
static void keep(void *p, int id) {
    if (!p) return;
    if (nkept < 64) { kept[nkept].p = p; kept[nkept].id = id; kept[nkept].cnt = 1; nkept++; }
    else free(p);
}
static void keep_arr(void *p, size_t cnt) {
    if (!p) return;
    if (nkept < 64 && cnt <= 8) {
        kept[nkept].p = p; kept[nkept].cnt = cnt; kept[nkept].id = 0;
        for (size_t j = 0; j < cnt; j++) kept[nkept].ids[j] = idof((unsigned char *) p + j * OBJ);
        nkept++;
    } else free(p);
}
static int check_kept(void) {
    int ok = 1;
    for (int k = 0; k < nkept; k++) {
        if (kept[k].id) { if (idof(kept[k].p) != kept[k].id) ok = 0; }
        else for (size_t j = 0; j < kept[k].cnt; j++) if (idof(kept[k].p + j * OBJ) != kept[k].ids[j]) ok = 0;
        free(kept[k].p);
    }
    nkept = 0;
    return ok;
}

static int is_alloc_op(const char *op) {
    return !strncmp(op, "add", 3) || !strncmp(op, "get", 3) || !strncmp(op, "pop", 3) || !strcmp(op, "reverse")
        || !strcmp(op, "resize") || !strcmp(op, "toarray") || !strcmp(op, "walk");
}

int main(int argc, char **argv) {
    if (argc < 8) return 2;
    OBJ = (size_t) atoi(argv[3]);
    int initcap = atoi(argv[4]);
    int opt = !strcmp(argv[5], "double") ? QVECTOR_RESIZE_DOUBLE : !strcmp(argv[5], "linear") ? QVECTOR_RESIZE_LINEAR : QVECTOR_RESIZE_EXACT;
    profile = atoi(argv[6]);
    int ts = strchr(argv[7], 't') != NULL, inj_at = strchr(argv[7], 'a') != NULL, inj_from = strchr(argv[7], 'f') != NULL;
    if (ts) opt |= QVECTOR_THREADSAFE;
    FILE *in = fopen(argv[1], "r");
    if (!in) return 2;
    FILE *devnull = fopen("/dev/null", "w");
    vh_open(argv[2]);
    vh_install_handlers();
    vh_ledger_on = 1; vh_quarantine = 1;
    qvector_t *V = NULL;
    char line[256], op[32];
    vh_buf b = {0};
    long mark = 0, lk0 = 0;
    while (fgets(line, sizeof line, in)) {
        int i = 0, v = 0;
        if (!strncmp(line, "reset", 5)) {
            if (V) {
                lk0 = VH_LOCK_BALANCE();
                V->free(V);
                int cok = check_kept();
                vh_emit("{\"op\":\"free\",\"i\":0,\"v\":0,\"live\":%ld,\"copies_ok\":%s,\"lkd\":%ld}", vh_live_since(mark), vh_bool(cok), 0L);
            }
            vh_seg++; vh_step = 0;
            mark = vh_ledger_mark();
            if (inj_at || inj_from) {
                /* constructor under allocation failure: NULL and nothing left allocated, or a working object */
                for (long ck = 1; ck <= 16; ck++) {
                    long m0 = vh_ledger_mark();
                    vh_where = "ctor";
                    vh_call_begin();
                    if (inj_at) vh_fail_at = ck; else vh_fail_from = ck;
                    V = qvector((size_t) initcap, OBJ, opt);
                    long nf = vh_failed;
                    vh_call_end();
                    int cok = V != NULL;
                    if (V) { V->free(V); V = NULL; }
                    vh_emit("{\"op\":\"ctor\",\"i\":0,\"v\":0,\"inj\":%ld,\"nfail\":%ld,\"ok\":%s,\"live\":%ld}", ck, nf, vh_bool(cok), vh_live_since(m0));
                    if (nf == 0) break;
                }
            }

            V = qvector((size_t) initcap, OBJ, opt);
            if (!V) return 2;
            vh_emit("{\"op\":\"reset\",\"i\":0,\"v\":0,\"cap\":%d}", initcap);
            continue;
        }
        if (sscanf(line, "%31s %d %d", op, &i, &v) < 1) continue;
        vh_step++;
        vh_where = op;
        int inject = (inj_at || inj_from) && is_alloc_op(op);
        for (long k = 1;; k++) {
            if (inject && k > 300) inject = 0;      /* give up injecting: finish the operation normally */
            unsigned char *arg = vh_malloc(OBJ);
            mk(arg, v);
            int ok = 1, rv = 0; void *p = NULL; size_t asz = 0; void *arr = NULL;
            long lkb = VH_LOCK_BALANCE(), ovb = vh_overlap_copies, bfb = vh_badfree;
            int narr = -1; static int arrids[8192];
            vh_watchdog(6);
            errno = 0;
            vh_call_begin();
            if (inject) { if (inj_at) vh_fail_at = k; else vh_fail_from = k; }
            if (!strcmp(op, "addat")) ok = V->addat(V, i, arg);
            else if (!strcmp(op, "addfirst")) ok = V->addfirst(V, arg);
            else if (!strcmp(op, "addlast")) ok = V->addlast(V, arg);
            else if (!strcmp(op, "getat")) { p = V->getat(V, i, true); ok = p != NULL; }
            else if (!strcmp(op, "getfirst")) { p = V->getfirst(V, true); ok = p != NULL; }
            else if (!strcmp(op, "getlast")) { p = V->getlast(V, true); ok = p != NULL; }
            else if (!strcmp(op, "setat")) ok = V->setat(V, i, arg);
            else if (!strcmp(op, "setfirst")) ok = V->setfirst(V, arg);
            else if (!strcmp(op, "setlast")) ok = V->setlast(V, arg);
            else if (!strcmp(op, "popat")) { p = V->popat(V, i); ok = p != NULL; }
            else if (!strcmp(op, "popfirst")) { p = V->popfirst(V); ok = p != NULL; }
            else if (!strcmp(op, "poplast")) { p = V->poplast(V); ok = p != NULL; }
            else if (!strcmp(op, "removeat")) ok = V->removeat(V, i);
            else if (!strcmp(op, "removefirst")) ok = V->removefirst(V);
            else if (!strcmp(op, "removelast")) ok = V->removelast(V);
            else if (!strcmp(op, "reverse")) { V->reverse(V); ok = (errno != ENOMEM); }
            else if (!strcmp(op, "clear")) {
                /* a cursor taken before the vector shrinks is stale afterwards: getnext must simply report the end (and keep no lock) */
                qvector_obj_t stale; memset(&stale, 0, sizeof stale);
                int had = V->getnext(V, &stale, false) && V->getnext(V, &stale, false);
                V->clear(V);
                if (had && V->getnext(V, &stale, false)) ok = 0;
            }
            else if (!strcmp(op, "resize")) ok = V->resize(V, (size_t) i);
            else if (!strcmp(op, "toarray")) { asz = 777; arr = V->toarray(V, &asz); ok = arr != NULL; }
            else if (!strcmp(op, "size")) { rv = (int) V->size(V); }
            else if (!strcmp(op, "debug")) { ok = V->debug(V, devnull); }
            else if (!strcmp(op, "walk")) {
                qvector_obj_t o; memset(&o, 0, sizeof o);
                int newmem = (vh_step & 1);
                narr = 0;
                if (ts) V->lock(V);
                int again = 0;
                for (;;) {
                    errno = 0;
                    if (V->getnext(V, &o, newmem)) {
                        if (narr < 8192) arrids[narr] = idof(o.data);
                        narr++;
                        if (newmem) free(o.data);
                        continue;
                    }
                    /* a step that reports a failed allocation has no effect: the same call again (nothing fails any more) delivers
                     * the element it could not copy, and the walk goes on to the end */
                    if (errno == ENOMEM && vh_failed > 0 && again < 2) { again++; vh_fail_at = 0; vh_fail_from = 0; continue; }
                    break;
                }
                ok = (errno == ENOENT);
                if (ok && !inject && V->num < V->max && V->num > 0) {
                    /* the refused step at the end has no effect either: refused once more, and an element appended now (into spare
                     * capacity) is the next one the same cursor delivers.  A failure shows as an element -7 at the end of the walk. */
                    int more = V->getnext(V, &o, newmem);
                    mk(arg, 2);
                    if (V->addlast(V, arg)) {
                        int got = V->getnext(V, &o, newmem), id = got ? idof(o.data) : -1;
                        if (got && newmem) free(o.data);
                        V->removelast(V);
                        if (more || !got || id != 2) { if (narr < 8192) arrids[narr] = -7; narr++; }
                        errno = ENOENT;
                    }
                    mk(arg, v);
                }
                if (ts) V->unlock(V);
                rv = ok ? narr : 0;
            }
            int e = ok ? 0 : vh_ecls(errno);
            long nfail = vh_failed;
            vh_call_end();
            alarm(0);
            /* scribble over and release the caller's buffer right after the call (C12) */
            memset(arg, 0xA5, OBJ); vh_free(arg);
            if (p) { rv = idof(p); keep(p, rv); }
            vh_bprintf(&b, "{\"op\":\"%s\",\"i\":%d,\"v\":%d,\"inj\":%ld,\"nfail\":%ld,\"ok\":%s,\"err\":%d,", op, i, v,
                       inject ? k : 0L, nfail, vh_bool(ok), e);
            vh_bprintf(&b, "\"arr\":[");
            if (arr) {
                rv = (int) asz;
                for (size_t j = 0; j < asz; j++) vh_bprintf(&b, "%s%d", j ? "," : "", idof((unsigned char *) arr + j * OBJ));
                keep_arr(arr, asz);
            } else if (narr >= 0) {
                for (int j = 0; j < narr && j < 8192; j++) vh_bprintf(&b, "%s%d", j ? "," : "", arrids[j]);
            }
            vh_bprintf(&b, "],\"rv\":%d,\"n\":%zu,\"elems\":[", rv, V->size(V));
            size_t n = V->num;
            if (n > 4096) n = 4096;
            for (size_t j = 0; j < n; j++) vh_bprintf(&b, "%s%d", j ? "," : "", V->objsize == OBJ ? idof((unsigned char *) V->data + j * OBJ) : -1);
            vh_bprintf(&b, "],\"cap\":%zu,\"lkd\":%ld,\"ovl\":%ld,\"bf\":%ld}", V->max, VH_LOCK_BALANCE() - lkb,
                       vh_overlap_copies - ovb, vh_badfree - bfb);
            vh_bflush(&b);
            if (!inject || nfail == 0 || ok ) break;     /* completed (normally or despite the failure) */
        }
    }
    if (V) {
        V->free(V);
        int cok = check_kept();
        vh_emit("{\"op\":\"free\",\"i\":0,\"v\":0,\"live\":%ld,\"copies_ok\":%s,\"lkd\":%ld}", vh_live_since(mark), vh_bool(cok), 0L);
    }
    vh_close();
    exit(0);
}
