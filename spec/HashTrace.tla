----------------------------- MODULE HashTrace -----------------------------
(* Judges records produced by the real hash functions (harness/hashes.c) against HashRef / MD5Ref  *)
(* (C18).  A record holds one input and the outputs obtained for every buffer alignment and with     *)
(* different bytes around the buffer; all of them must equal the reference value.                    *)
EXTENDS HashRef, Json, IOUtils, TLCExt
M == INSTANCE MD5Ref
VARIABLE l
T == ndJsonDeserialize(IOEnv.TRACE)
NT == Len(T)
Ev == T[l]
\* MD5 of n zero bytes for three lengths around 2^29 (coreutils md5sum of head -c n /dev/zero)
ZeroMD5(n) == CASE n = 536870911 -> <<198, 196, 131, 74, 123, 9, 40, 135, 138, 212, 140, 134, 122, 30, 36, 214>>
                [] n = 536870912 -> <<170, 85, 155, 78, 53, 35, 166, 201, 49, 240, 143, 77, 245, 45, 88, 242>>
                [] n = 536870975 -> <<25, 23, 1, 148, 36, 9, 138, 10, 79, 75, 139, 13, 177, 251, 88, 121>>
Ref == CASE Ev.fn = "md5" -> M!MD5(Ev.inp)
         [] Ev.fn = "m32" -> Murmur32(Ev.inp)
         [] Ev.fn = "m128" -> Murmur128(Ev.inp)
         [] Ev.fn = "fnv32" -> Fnv32(Ev.inp)
         [] Ev.fn = "fnv64" -> Fnv64(Ev.inp)
         [] Ev.fn = "md5zero" -> ZeroMD5(Ev.zlen)      \* MD5 of that many zero bytes (one call of 2^29 bytes or more)
         [] Ev.fn = "md5rel" -> Ev.mem         \* a large file range: equal to the in-memory digest of the same bytes
         [] OTHER -> <<-1>>
Ok == Ev.fn \notin {"crash", "timeout"} /\ LET r == Ref IN Len(Ev.outs) > 0 /\ \A i \in 1..Len(Ev.outs) : Ev.outs[i] = r
Init == l = 1
Next == /\ l <= NT /\ l' = l + 1
        /\ (Ok \/ PrintT("REJECT " \o ToJson([l |-> l, why |-> {IF Ev.fn \in {"crash", "timeout"} THEN Ev.fn ELSE "hash"},
                                               ev |-> Ev, exp |-> IF Ev.fn \in {"crash", "timeout"} THEN <<>> ELSE Ref])))
Consumed == TLCGet("stats").diameter - 1 = NT
=============================================================================
