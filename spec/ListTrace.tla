--------------------------- MODULE ListTrace ---------------------------
(* Judges events recorded from the real qlist/qqueue/qstack/qgrow (harness/replay_list.c).     *)
EXTENDS List, IOUtils, TLCExt
CONSTANT Owned
VARIABLES l, skipping, vtab
T == ndJsonDeserialize(IOEnv.TRACE)
NT == Len(T)
Ev == T[l]
TInit == seq = <<>> /\ max = 0 /\ lastOp = [op |-> "init", i |-> 0, v |-> 0] /\ l = 1 /\ skipping = FALSE /\ vtab = VBdefault
Expected == Apply(vtab, seq, max, Ev.op, Ev.i, Ev.v)
Gets == {"getat", "getfirst", "getlast", "popat", "popfirst", "poplast", "pop", "get"}
Removes == {"removeat", "removefirst", "removelast"}
ResultOk(r) ==
  /\ Ev.ok = r.ok
  /\ (~r.ok /\ Ev.op \notin Gets \cup Removes => Ev.err = r.err)      \* errno compared only where documented uniformly
  /\ (Ev.op \in Gets => Ev.rv = r.v /\ Ev.n = r.n)
  /\ (Ev.op \in {"setsize", "toarray"} => Ev.n = r.n)
  /\ (Ev.op = "sizes" => Ev.rv = r.v /\ Ev.n = r.n)
  /\ (Ev.op \in {"toarray", "tostring", "walk"} => Ev.bytes = r.bytes)
StateOk(r) == /\ Ev.seq = r.seq /\ Ev.rseq = Rev(r.seq) /\ Ev.max = r.max
              /\ Ev.num = Len(r.seq) /\ Ev.dsum = SumSize(vtab, r.seq)
FailedCleanly == /\ Ev.inj > 0 /\ Ev.nfail > 0 /\ Ev.op \in Allocating
                 /\ Ev.ok = FALSE
                 /\ Ev.seq = seq /\ Ev.rseq = Rev(seq) /\ Ev.max = max /\ Ev.num = Len(seq) /\ Ev.dsum = SumSize(vtab, seq)
                 /\ (Ev.op = "walk" => IsPrefix(Ev.bytes, seq))
                 /\ (Ev.op # "walk" => Ev.bytes = <<>>) /\ (Ev.op \in Gets => Ev.rv = 0)
Why == LET r == Expected IN
       IF Ev.op = "free" THEN
            (IF Ev.live # 0 THEN {"leak"} ELSE {}) \cup (IF ~Ev.copies_ok THEN {"copy"} ELSE {})
       ELSE (IF FailedCleanly \/ (ResultOk(r) /\ StateOk(r)) THEN {}
             ELSE IF Ev.inj > 0 THEN {"enomem"} ELSE IF ResultOk(r) THEN {"state"} ELSE {"result"})
            \cup (IF Ev.lkd # 0 THEN {"lock"} ELSE {})
            \cup (IF Ev.ovl # 0 THEN {"overlap"} ELSE {})
            \cup (IF Ev.bf # 0 THEN {"badfree"} ELSE {})
Reject(why, exp) == PrintT("REJECT " \o ToJson([l |-> l, why |-> why, ev |-> Ev, exp |-> exp]))
TNext == /\ l <= NT /\ l' = l + 1 /\ lastOp' = lastOp
         /\ IF Ev.op = "reset" THEN seq' = <<>> /\ max' = 0 /\ skipping' = FALSE /\ vtab' = Ev.vals
            ELSE IF skipping THEN UNCHANGED <<seq, max, skipping, vtab>>
            ELSE IF Ev.op = "ctor" THEN
                 \* constructor under allocation failure: a failed constructor leaves nothing allocated (C15)
                 IF Ev.live = 0 \/ "leak" \notin Owned THEN UNCHANGED <<seq, max, skipping, vtab>>
                 ELSE PrintT("REJECT " \o ToJson([l |-> l, why |-> {"leak"}, ev |-> Ev, exp |-> "constructor leaked"])) /\ skipping' = TRUE /\ UNCHANGED <<seq, max, vtab>>
            ELSE IF Ev.op \in {"crash", "timeout"} THEN
                 Reject({Ev.op, "result"}, "no action admits this event") /\ skipping' = TRUE /\ UNCHANGED <<seq, max, vtab>>
            ELSE IF Why \cap (Owned \cup {"result", "state", "enomem"}) = {} THEN
                 /\ UNCHANGED <<skipping, vtab>>
                 /\ IF Ev.op = "free" THEN UNCHANGED <<seq, max>>
                    ELSE IF FailedCleanly /\ ~(ResultOk(Expected) /\ StateOk(Expected)) THEN UNCHANGED <<seq, max>>
                    ELSE seq' = Expected.seq /\ max' = Expected.max
            ELSE /\ Reject(Why, IF Ev.op = "free" THEN <<>> ELSE Expected)
                 /\ skipping' = TRUE /\ UNCHANGED <<seq, max, vtab>>
Consumed == TLCGet("stats").diameter - 1 = NT
=========================================================================
