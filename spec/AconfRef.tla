----------------------------- MODULE AconfRef -----------------------------
(* Reference semantics of the Apache-style parser qaconf (C20): an abstract document is a sequence    *)
(* of directive lines [t: "opt"|"open"|"close", name, alt (written in the other letter case), shown   *)
(* (the name as written), args: sequence of typed tokens [txt, kind]]; Expect(doc) gives the return    *)
(* value (number of directives or -1), the failing line and the complete callback stream (otype,       *)
(* section, sections, level, argv with booleans normalised to 1/0, parent chain; a close callback      *)
(* receives the data of the opening directive).  TLC has no character-level string operations, so     *)
(* tokens are typed records and turning a document into text (quoting style, escapes, whitespace,      *)
(* comment and blank lines) is the harness renderer's job, several renderings per document.            *)
(* Unregistered sections under QAC_IGNOREUNKNOWN are entered like registered ones (see `last` below);  *)
(* together with a default handler they are outside the generated documents (undocumented).            *)
EXTENDS Integers, Sequences, TLC, Json, IOUtils, SequencesExt
CONSTANT PinnedBool      \* TRUE would model the pinned defect (every false spelling rejected); checks use FALSE
\* option table: take = -1 means TAKEALL; ts: per-argument types for the leading positions ("" = use default; only
\* positions 1..5 can carry a type of their own and only they are checked at all), def = default type
Opt(take, ts, def, sid, secs) == [take |-> take, ts |-> ts, def |-> def, sid |-> sid, secs |-> secs]
Table == [Listen |-> Opt(1, <<"int">>, "str", 0, 0),
          Flag   |-> Opt(1, <<"bool">>, "str", 0, 1),
          Domain |-> Opt(1, <<>>, "str", 2, 1),
          Host   |-> Opt(1, <<>>, "str", 4, 2),
          TTL    |-> Opt(1, <<"int">>, "str", 0, 6),
          Mix    |-> Opt(-1, <<"bool", "int">>, "float", 0, 0),
          Pair   |-> Opt(2, <<>>, "str", 0, 0),
          Five   |-> Opt(5, <<"int", "", "float", "int", "bool">>, "str", 0, 0),
          Many   |-> Opt(-1, <<>>, "bool", 0, 0),
          Quiet  |-> Opt(1, <<>>, "str", 0, 0),      \* registered without a callback of its own
          Fail   |-> Opt(1, <<>>, "str", 0, 0)]      \* its callback reports an error when the argument is "bad"
NoCb == {"Quiet"}
Known == DOMAIN Table
\* a line: [t, name (canonical), alt (rendered in other case), shown (argv0 as rendered), args: Seq([txt, kind])]
\* kinds: "int", "float", "bool1", "bool0", "int1" (the token 1), "int0" (the token 0), "str"
IsInt(k) == k \in {"int", "int1", "int0"}
IsNum(k) == IsInt(k) \/ k = "float"
BoolVal(k) == IF k \in {"bool1", "int1"} THEN 1 ELSE IF k \in {"bool0", "int0"} THEN 0 ELSE -1
BitAnd(a, b) == \* small masks only (0..7)
  LET bit(x, i) == (x \div (2^i)) % 2 IN bit(a,0)*bit(b,0) + 2*bit(a,1)*bit(b,1) + 4*bit(a,2)*bit(b,2)
BitOr(a, b) == a + b - BitAnd(a, b)
ArgType(o, j) == LET t == IF j <= Len(o.ts) THEN o.ts[j] ELSE "" IN IF t = "" THEN o.def ELSE t
\* check + normalise arguments: returns <<ok, args'>>
CheckArgs(o, args) ==
  LET n == Len(args)
      okj(j) == LET ty == IF j <= 5 THEN ArgType(o, j) ELSE "str" k == args[j].kind IN
                CASE ty = "int" -> IsInt(k)
                  [] ty = "float" -> IsNum(k)
                  [] ty = "bool" -> IF PinnedBool THEN BoolVal(k) = 1 ELSE BoolVal(k) >= 0
                  [] OTHER -> TRUE
      norm(j) == IF j <= 5 /\ ArgType(o, j) = "bool" /\ BoolVal(args[j].kind) >= 0
                 THEN (IF BoolVal(args[j].kind) = 1 THEN "1" ELSE "0") ELSE args[j].txt
  IN <<(o.take = -1 \/ o.take = n) /\ \A j \in 1..n : okj(j), [j \in 1..n |-> norm(j)]>>
\* parser state
\* `last`: per nesting level, the section id of the registered section opened last at that level (0 at the start of a level).
\* The code keeps it in a local variable that an unregistered section does not update, so an ignored unregistered section is
\* entered with that left-over id as its own (0 when no registered section was opened before it at that level): inside it,
\* options restricted to particular sections are refused unless the left-over id admits them.  Modelled as the code behaves.
S0 == [stack |-> <<>>, cbs |-> <<>>, count |-> 0, err |-> 0, ln |-> 0, last |-> 0]
Pop(st) == [st EXCEPT !.last = st.stack[Len(st.stack)].outerlast, !.stack = SubSeq(@, 1, Len(@) - 1)]
CurSec(st) == IF st.stack = <<>> THEN 1 ELSE st.stack[Len(st.stack)].sid
CurSecs(st) == IF st.stack = <<>> THEN 1 ELSE st.stack[Len(st.stack)].childsecs
Parents(st) == [i \in 1..Len(st.stack) |-> st.stack[Len(st.stack) + 1 - i].shown]
Fail(st) == [st EXCEPT !.err = st.ln + 1, !.ln = st.ln + 1]
StepLine(st, line, ci, ignore, defh) ==
  IF st.err # 0 THEN st
  ELSE LET found == line.name \in Known /\ (~line.alt \/ ci)
           top == IF st.stack = <<>> THEN [name |-> "", alt |-> FALSE] ELSE st.stack[Len(st.stack)]
           closeOK == st.stack # <<>> /\ top.name = line.name /\ (ci \/ top.alt = line.alt)
       IN
       IF line.t = "close" /\ ~closeOK THEN Fail(st)
       ELSE IF ~found /\ defh /\ line.t = "opt" THEN
            \* an unregistered option line goes to the default handler, arguments as written
            [st EXCEPT !.cbs = Append(@, [otype |-> 0, shown |-> line.shown, section |-> CurSec(st), sections |-> CurSecs(st),
                                           level |-> Len(st.stack), args |-> [j \in 1..Len(line.args) |-> line.args[j].txt],
                                           parents |-> Parents(st), h |-> "def", ud |-> TRUE]),
                       !.count = @ + 1, !.ln = @ + 1]
       ELSE IF ~found THEN
            IF ignore THEN
                 IF line.t = "close" THEN [Pop(st) EXCEPT !.count = @ + 1, !.ln = @ + 1]
                 ELSE IF line.t = "open" THEN
                      \* an ignored unregistered section is entered all the same (no callback), under the left-over section id
                      [st EXCEPT !.count = @ + 1, !.ln = @ + 1, !.last = 0,
                                 !.stack = Append(@, [name |-> line.name, alt |-> line.alt, shown |-> line.shown, sid |-> st.last,
                                                      childsecs |-> BitOr(CurSecs(st), st.last), section |-> CurSec(st),
                                                      sections |-> CurSecs(st), args |-> <<>>, outerlast |-> st.last])]
                 ELSE [st EXCEPT !.count = @ + 1, !.ln = @ + 1]
            ELSE Fail(st)
       ELSE LET o == Table[line.name] IN
            IF line.t = "close" THEN
               [Pop(st) EXCEPT !.cbs = Append(@, [otype |-> 2, shown |-> top.shown, section |-> top.section, sections |-> top.sections,
                                              level |-> Len(st.stack) - 1, args |-> top.args, parents |-> Tail(Parents(st)),
                                              h |-> "cb", ud |-> TRUE]),
                          !.count = @ + 1, !.ln = @ + 1]
            ELSE IF o.secs # 0 /\ BitAnd(o.secs, CurSec(st)) = 0 THEN Fail(st)
            ELSE LET ca == CheckArgs(o, line.args) IN
                 IF ~ca[1] THEN Fail(st)
                 ELSE LET cb == [otype |-> IF line.t = "open" THEN 1 ELSE 0, shown |-> line.shown, section |-> CurSec(st),
                                 sections |-> CurSecs(st), level |-> Len(st.stack), args |-> ca[2], parents |-> Parents(st),
                                 h |-> IF line.name \in NoCb THEN "def" ELSE "cb", ud |-> TRUE]
                          called == line.name \notin NoCb \/ defh
                      IN IF called /\ line.name = "Fail" /\ ca[2] = <<"bad">>
                         THEN [Fail(st) EXCEPT !.cbs = Append(@, cb)]        \* the callback ran, then its error message stops the parse
                         ELSE
                         [st EXCEPT !.cbs = IF called THEN Append(@, cb) ELSE @, !.count = @ + 1, !.ln = @ + 1,
                                    !.last = IF line.t = "open" THEN 0 ELSE @,
                                    !.stack = IF line.t = "open"
                                              THEN Append(@, [name |-> line.name, alt |-> line.alt, shown |-> line.shown, sid |-> o.sid,
                                                              childsecs |-> BitOr(CurSecs(st), o.sid), section |-> CurSec(st),
                                                              sections |-> CurSecs(st), args |-> ca[2], outerlast |-> o.sid])
                                              ELSE @]
Expect(doc) ==
  LET fin == FoldLeft(LAMBDA st, line : StepLine(st, line, doc.ci, doc.ignore, doc.defh), S0, doc.lines)
      fin2 == IF fin.err = 0 /\ fin.stack # <<>> THEN [fin EXCEPT !.err = Len(doc.lines)] ELSE fin   \* unclosed section: reported at the last line
  IN [ret |-> IF fin2.err = 0 THEN fin2.count ELSE -1, errline |-> fin2.err, cbs |-> fin2.cbs]
=============================================================================
