---------------------------- MODULE CodecTrace ----------------------------
(* Judges records produced by the real qbase64/qhex/qurl encoders and decoders and qparse_queries   *)
(* (harness/codec.c) against the reference definitions of Codec.tla (C16), and the outputs of the    *)
(* in-place decoders on arbitrary input against the bounds of C17.                                   *)
EXTENDS Codec, Json, IOUtils, TLCExt
VARIABLES l
T == ndJsonDeserialize(IOEnv.TRACE)
NT == Len(T)
Ev == T[l]
SetOfSeq(s) == {s[i] : i \in 1..Len(s)}
Upper(s) == [i \in 1..Len(s) |-> IF s[i] >= 97 /\ s[i] <= 102 THEN s[i] - 32 ELSE s[i]]
Ok == CASE Ev.fn = "b64" -> Ev.enc = B64Enc(Ev.inp) /\ Ev.dec = Ev.inp
        [] Ev.fn = "hex" -> Ev.enc = HexEnc(Ev.inp) /\ Ev.dec = Ev.inp /\ Ev.alt = Ev.inp      \* alt: decoded from upper-case digits
        [] Ev.fn = "url" -> UrlOk(Ev.enc, Ev.inp) /\ Ev.dec = Ev.inp /\ Ev.alt = Ev.inp        \* alt: upper-case hex and '+' for space
        [] Ev.fn = "query" -> Ev.parsed = Ev.pairs /\ Ev.count = Len(Ev.pairs)
        \* C17: decoders on arbitrary input deliver a result no longer than the input; on well-formed input the reference result
        [] Ev.fn = "urldec" -> Len(Ev.out) <= Len(Ev.inp) /\ (WellFormedUrl(Ev.inp) => Ev.out = UrlDec(Ev.inp))
        [] Ev.fn = "hexdec" -> Len(Ev.out) <= Len(Ev.inp) /\ (WellFormedHex(Ev.inp) => Ev.out = HexDec(Ev.inp))
        [] Ev.fn = "b64dec" -> Len(Ev.out) <= Len(Ev.inp) /\ Ev.out = B64Dec(Ev.inp)
        [] Ev.fn \in {"parse", "ini", "aconf"} -> TRUE        \* arbitrary input: delivering any result or an error is fine
        [] Ev.fn \in {"crash", "timeout"} -> FALSE
        [] OTHER -> FALSE
Init == l = 1
Next == /\ l <= NT /\ l' = l + 1
        /\ (Ok \/ PrintT("REJECT " \o ToJson([l |-> l, why |-> {IF Ev.fn \in {"crash", "timeout"} THEN Ev.fn ELSE "codec"}, ev |-> Ev, exp |-> ""])))
Consumed == TLCGet("stats").diameter - 1 = NT
===========================================================================
