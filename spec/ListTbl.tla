----------------------------- MODULE ListTbl -----------------------------
(* qlisttbl: an ordered multimap from names to byte values kept as a doubly linked list (C08).   *)
(* State: ents, the sequence of <<key, value>> entries top to bottom.  The four creation options *)
(* are constants, so each of the 16 combinations is its own model:                                *)
(*   Uniq (QLISTTBL_UNIQUE) put first removes every entry with an equal key                       *)
(*   Ci   (QLISTTBL_CASEINSENSITIVE) keys are compared ignoring case                              *)
(*   Top  (QLISTTBL_INSERTTOP) put prepends instead of appending                                  *)
(*   Fwd  (QLISTTBL_LOOKUPFORWARD) lookups and walks run top-down instead of bottom-up            *)
(* Keys 1..4 stand for "Alpha" "Beta" "alpha" "beta": strcmp order is the numeric order, and      *)
(* folding case identifies 1~3 and 2~4.                                                           *)
EXTENDS Integers, Sequences, TLC, Json
CONSTANTS MaxLen, Vals, Uniq, Ci, Top, Fwd
VARIABLES ents, lastOp
vars == <<ents, lastOp>>
Keys == 1..4
Fold(k) == ((k - 1) % 2) + 1
Match(a, b) == IF Ci THEN Fold(a) = Fold(b) ELSE a = b
Cmp(a, b) == IF Ci THEN Fold(a) - Fold(b) ELSE a - b
Rev(s) == [j \in 1..Len(s) |-> s[Len(s) + 1 - j]]
Filter(s, k) == SelectSeq(s, LAMBDA e : Match(e[1], k))
Without(s, k) == SelectSeq(s, LAMBDA e : ~Match(e[1], k))
Look(s) == IF Fwd THEN s ELSE Rev(s)
\* stable ascending sort by key (insertion sort keeps equal keys in their relative order)
RECURSIVE InsSorted(_, _)
InsSorted(s, e) == IF s = <<>> THEN <<e>>
                   ELSE IF Cmp(Head(s)[1], e[1]) > 0 THEN <<e>> \o s
                   ELSE <<Head(s)>> \o InsSorted(Tail(s), e)
StableSort(s) == LET RECURSIVE Go(_, _) Go(acc, rest) == IF rest = <<>> THEN acc ELSE Go(InsSorted(acc, Head(rest)), Tail(rest))
                 IN Go(<<>>, s)
\* result: ents, ok, err class (1 = ENOENT), n (count / value id / size), out (sequence of <<k, v>>)
Res(e, ok, err, n, out) == [ents |-> e, ok |-> ok, err |-> err, n |-> n, out |-> out]
Apply(e, op, k, v) ==
  CASE op = "put" -> LET b == IF Uniq THEN Without(e, k) ELSE e
                     IN Res(IF Top THEN << <<k, v>> >> \o b ELSE Append(b, <<k, v>>), TRUE, 0, 0, <<>>)
    [] op = "get" -> LET m == Filter(Look(e), k) IN IF m = <<>> THEN Res(e, FALSE, 1, 0, <<>>) ELSE Res(e, TRUE, 0, m[1][2], <<>>)
    [] op = "getmulti" -> LET m == Filter(Look(e), k) IN Res(e, m # <<>>, IF m = <<>> THEN 1 ELSE 0, Len(m), m)
    [] op = "remove" -> Res(Without(e, k), TRUE, 0, Len(Filter(e, k)), <<>>)
    [] op = "rmwalk" -> Res(Without(e, k), TRUE, 0, Len(Filter(e, k)), <<>>)      \* removeobj of each match during a walk
    [] op = "walk" -> Res(e, TRUE, 0, Len(e), Look(e))
    [] op = "walkname" -> LET m == Filter(Look(e), k) IN Res(e, TRUE, 0, Len(m), m)
    [] op = "size" -> Res(e, TRUE, 0, Len(e), <<>>)
    [] op = "debug" -> Res(e, TRUE, 0, 0, <<>>)
    [] op = "sort" -> Res(StableSort(e), TRUE, 0, 0, <<>>)
    [] op = "clear" -> Res(<<>>, TRUE, 0, 0, <<>>)
    [] op = "saveload" -> Res(e, TRUE, 0, Len(e), e)      \* save, load into a fresh table with the same options: same entries, count reported
KeyOps == {"get", "getmulti", "remove", "rmwalk", "walkname"}
NoArg == {"walk", "size", "sort", "clear", "saveload", "debug"}
Allocating == {"put", "get", "getmulti", "walk", "walkname", "saveload"}
Init == ents = <<>> /\ lastOp = [op |-> "init", k |-> 0, v |-> 0]
Do(op, k, v) == /\ (op = "put" => Len(ents) < MaxLen)
                /\ ents' = Apply(ents, op, k, v).ents /\ lastOp' = [op |-> op, k |-> k, v |-> v]
Next == \/ \E k \in Keys, v \in Vals : Do("put", k, v)
        \/ \E op \in KeyOps, k \in Keys : Do(op, k, 0)
        \/ \E op \in NoArg : Do(op, 0, 0)
Spec == Init /\ [][Next]_vars
\* ---- design properties ----
UniqueHolds == Uniq => \A i, j \in 1..Len(ents) : i # j => ~Match(ents[i][1], ents[j][1])
IsSortedStable == [][lastOp'.op = "sort" =>
                       /\ \A i \in 1..(Len(ents') - 1) : Cmp(ents'[i][1], ents'[i + 1][1]) <= 0
                       /\ \A k \in Keys : Filter(ents', k) = Filter(ents, k)]_vars
View == ents
Dump == PrintT(ToJson([from |-> ents, op |-> lastOp', to |-> ents']))
==========================================================================
