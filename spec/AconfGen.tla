----------------------------- MODULE AconfGen -----------------------------
(* TLC generates every abstract Apache-style document made of up to MaxLines lines from a pool of      *)
(* directive lines (options with every boolean spelling class, typed arguments, sections, closes,     *)
(* unknown and wrongly-cased names) x the two parser flags, and prints each as one JSON line.         *)
EXTENDS Integers, Sequences, TLC, Json
CONSTANT MaxLines
VARIABLES lines, flags
A(txt, kind) == [txt |-> txt, kind |-> kind]
L(t, name, alt, shown, args) == [t |-> t, name |-> name, alt |-> alt, shown |-> shown, args |-> args]
Pool == { L("opt", "Listen", FALSE, "Listen", <<A("53", "int")>>),
          L("opt", "Listen", FALSE, "Listen", <<A("x", "str")>>),
          L("opt", "Flag", FALSE, "Flag", <<A("Off", "bool0")>>),
          L("opt", "Flag", TRUE, "FLAG", <<A("yes", "bool1")>>),
          L("opt", "Flag", FALSE, "Flag", <<A("0", "int0")>>),
          L("opt", "Mix", FALSE, "Mix", <<A("no", "bool0"), A("7", "int"), A("1.5", "float")>>),
          L("opt", "Pair", FALSE, "Pair", <<A("a b", "str")>>),
          L("opt", "Five", FALSE, "Five", <<A("7", "int"), A("x", "str"), A("2", "int"), A("-3", "int"), A("On", "bool1")>>),
          L("opt", "Five", FALSE, "Five", <<A("7", "int"), A("x", "str"), A("2.5", "float"), A("3", "int"), A("maybe", "str")>>),
          L("opt", "Many", FALSE, "Many", <<A("no", "bool0"), A("1", "int1"), A("TRUE", "bool1"), A("off", "bool0"), A("Yes", "bool1"), A("maybe", "str"), A("On", "bool1")>>),
          L("opt", "Many", FALSE, "Many", <<A("no", "bool0"), A("1", "int1"), A("TRUE", "bool1"), A("off", "bool0"), A("7", "int")>>),
          L("opt", "TTL", FALSE, "TTL", <<A("1", "int1")>>),
          L("opt", "Quiet", FALSE, "Quiet", <<A("q", "str")>>),
          L("opt", "Fail", FALSE, "Fail", <<A("bad", "str")>>),
          L("opt", "Fail", FALSE, "Fail", <<A("good", "str")>>),
          L("opt", "Bogus", FALSE, "Bogus", <<A("v", "str")>>),
          L("open", "Domain", FALSE, "Domain", <<A("mail", "str")>>),
          L("open", "Host", FALSE, "Host", <<A("h", "str")>>),
          L("close", "Domain", FALSE, "Domain", <<>>),
          L("close", "Host", FALSE, "Host", <<>>),
          \* unregistered sections (entered all the same under ignore-unknown), also a registered name in the wrong letter case
          L("open", "Bogus", FALSE, "Bogus", <<A("x", "str")>>),
          L("close", "Bogus", FALSE, "Bogus", <<>>),
          L("open", "Domain", TRUE, "DOMAIN", <<A("mail", "str")>>),
          L("close", "Domain", TRUE, "DOMAIN", <<>>) }
\* flags: case-insensitive, ignore-unknown, default handler installed
Init == lines = <<>> /\ flags \in {<<FALSE, FALSE, FALSE>>, <<TRUE, FALSE, FALSE>>, <<FALSE, TRUE, FALSE>>, <<FALSE, FALSE, TRUE>>, <<FALSE, TRUE, TRUE>>}
Next == Len(lines) < MaxLines /\ \E x \in Pool : lines' = Append(lines, x) /\ UNCHANGED flags
Emit == PrintT("DOC " \o ToJson([lines |-> lines, ci |-> flags[1], ignore |-> flags[2], defh |-> flags[3]]))
===========================================================================
