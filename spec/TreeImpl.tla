---------------------------- MODULE TreeImpl ----------------------------
(* qtreetbl: the left-leaning red-black 2-3-4 tree of src/containers/qtreetbl.c, transcribed     *)
(* at the level of nodes (properties C01-C04).                                                    *)
(*                                                                                                *)
(* A node is <<key, val, red, tid, nx, left, right>>; Nil is <<>>.  `tid` is the per-node travel  *)
(* stamp, `nx` the parent link written by getnext/find_nearest, represented by the KEY of the     *)
(* node it points to (0 = NULL, -1 = dangling: it points to a node that has been freed).  The     *)
(* table has the epoch counter ttid (modulo TidMod; 256 in the real code).  The client's cursor   *)
(* object is cur = [tid, nx].                                                                     *)
(*                                                                                                *)
(* Pure operators (PutObj, RemoveObj, GN, Desc, Climb ...) follow the C functions line by line,   *)
(* so the same definitions serve the exhaustive model (Next) and the trace specification          *)
(* (TreeTrace) that predicts the real tree after every recorded call.                             *)
EXTENDS Integers, Sequences, FiniteSets, TLC, Json
CONSTANTS MaxKey,      \* keys are 1..MaxKey
          Vals,        \* value ids
          TidMod,      \* period of the epoch counter (real code: 256)
          WithIter,    \* TRUE: include getnext / abandon / nearest actions
          FixWrap,     \* TRUE: on epoch wrap-around all stamps are cleared and the epoch restarts at 1
          FixRootNext  \* TRUE: find_nearest clears the root's parent link before descending
VARIABLES tree, ttid, cur, out, mode, unfinished, bad, lastOp

Keys == 1..MaxKey
Nil == <<>>
K(t) == t[1]  V(t) == t[2]  Red(t) == t[3]  Tid(t) == t[4]  Nx(t) == t[5]  L(t) == t[6]  R(t) == t[7]
N(k, v, red, tid, nx, l, r) == <<k, v, red, tid, nx, l, r>>
IsRed(t) == IF t = Nil THEN FALSE ELSE t[3]
SetL(t, l) == [t EXCEPT ![6] = l]
SetR(t, r) == [t EXCEPT ![7] = r]
SetRed(t, c) == [t EXCEPT ![3] = c]
FlipNode(t) == SetRed(t, ~t[3])
Flip(t) == [t EXCEPT ![3] = ~t[3], ![6] = FlipNode(t[6]), ![7] = FlipNode(t[7])]          \* flip_color
RotL(t) == LET x == R(t) IN [x EXCEPT ![3] = Red(t), ![6] = [t EXCEPT ![3] = TRUE, ![7] = L(x)]]   \* rotate_left
RotR(t) == LET x == L(t) IN [x EXCEPT ![3] = Red(t), ![7] = [t EXCEPT ![3] = TRUE, ![6] = R(x)]]   \* rotate_right

\* put_obj (LLRB234): split 4-nodes on the way down, fix on the way up
RECURSIVE PutObj(_, _, _)
PutObj(t, k, v) ==
  IF t = Nil THEN N(k, v, TRUE, 0, 0, Nil, Nil)
  ELSE LET t1 == IF IsRed(L(t)) /\ IsRed(R(t)) THEN Flip(t) ELSE t
           t2 == IF k = K(t1) THEN [t1 EXCEPT ![2] = v]
                 ELSE IF k < K(t1) THEN SetL(t1, PutObj(L(t1), k, v))
                 ELSE SetR(t1, PutObj(R(t1), k, v))
           t3 == IF IsRed(R(t2)) /\ ~IsRed(L(t2)) THEN RotL(t2) ELSE t2
           t4 == IF IsRed(L(t3)) /\ IsRed(L(L(t3))) THEN RotR(t3) ELSE t3
       IN t4
MoveRedLeft(t) ==
  LET a == Flip(t) IN
  IF IsRed(L(R(a))) THEN
     LET d == Flip(RotL(SetR(a, RotR(R(a)))))
     IN IF IsRed(R(R(d))) THEN SetR(d, RotL(R(d))) ELSE d
  ELSE a
MoveRedRight(t) == LET a == Flip(t) IN IF IsRed(L(L(a))) THEN Flip(RotR(a)) ELSE a
Fix(t) ==
  LET a == IF IsRed(R(t)) THEN RotL(IF IsRed(L(R(t))) THEN SetR(t, RotR(R(t))) ELSE t) ELSE t
  IN IF IsRed(L(a)) /\ IsRed(L(L(a))) THEN RotR(a) ELSE a
RECURSIVE MinNode(_)
MinNode(t) == IF L(t) = Nil THEN t ELSE MinNode(L(t))
RECURSIVE MaxNode(_)
MaxNode(t) == IF R(t) = Nil THEN t ELSE MaxNode(R(t))
RECURSIVE RemoveMin(_)
RemoveMin(t) ==
  IF L(t) = Nil THEN Nil
  ELSE LET a == IF ~IsRed(L(t)) /\ ~IsRed(L(L(t))) THEN MoveRedLeft(t) ELSE t
       IN Fix(SetL(a, RemoveMin(L(a))))
\* remove_obj; returns <<tree, found, freedKey, renamedFrom>>: freedKey = key of the node object that was freed
\* (0 none); renamedFrom = old key of the node object that took over the successor's key and value (0 none)
RECURSIVE RemoveObj(_, _)
RemoveObj(t, k) ==
  IF t = Nil THEN <<Nil, FALSE, 0, 0>>
  ELSE IF k < K(t) THEN
     LET a == IF L(t) # Nil /\ ~IsRed(L(t)) /\ ~IsRed(L(L(t))) THEN MoveRedLeft(t) ELSE t
         r == RemoveObj(L(a), k)
     IN <<Fix(SetL(a, r[1])), r[2], r[3], r[4]>>
  ELSE
     LET a == IF IsRed(L(t)) THEN RotR(t) ELSE t
     IN IF R(a) = Nil /\ k = K(a) THEN <<Nil, TRUE, k, 0>>
        ELSE LET b == IF R(a) # Nil /\ ~IsRed(R(a)) /\ ~IsRed(L(R(a))) THEN MoveRedRight(a) ELSE a
             IN IF k = K(b) THEN
                   LET m == MinNode(R(b)) IN
                   <<Fix(SetR([b EXCEPT ![1] = K(m), ![2] = V(m)], RemoveMin(R(b)))), TRUE, K(m), k>>
                ELSE LET r == RemoveObj(R(b), k) IN <<Fix(SetR(b, r[1])), r[2], r[3], r[4]>>
\* parent links after a removal, in key-identity representation: links to the freed node object dangle,
\* links to the renamed node object now name its new key
RECURSIVE Repoint(_, _, _)
Repoint(t, freed, from) ==
  IF t = Nil THEN Nil
  ELSE LET nx == IF Nx(t) = freed /\ freed # 0 THEN -1
                 ELSE IF Nx(t) = from /\ from # 0 THEN freed ELSE Nx(t)
       IN [t EXCEPT ![5] = nx, ![6] = Repoint(L(t), freed, from), ![7] = Repoint(R(t), freed, from)]
Blacken(t) == IF t = Nil THEN t ELSE SetRed(t, FALSE)
PutTree(t, k, v) == Blacken(PutObj(t, k, v))
RemTree(t, k) == LET r == RemoveObj(t, k) IN Repoint(Blacken(r[1]), r[3], r[4])

RECURSIVE InOrder(_)
InOrder(t) == IF t = Nil THEN <<>> ELSE InOrder(L(t)) \o <<K(t)>> \o InOrder(R(t))
RECURSIVE InOrderKV(_)
InOrderKV(t) == IF t = Nil THEN <<>> ELSE InOrderKV(L(t)) \o << <<K(t), V(t)>> >> \o InOrderKV(R(t))
RECURSIVE Find(_, _)
Find(t, k) == IF t = Nil THEN Nil ELSE IF k = K(t) THEN t ELSE IF k < K(t) THEN Find(L(t), k) ELSE Find(R(t), k)
RECURSIVE Depth(_, _)           \* comparisons made by find_obj for key k
Depth(t, k) == IF t = Nil THEN 0 ELSE IF k = K(t) THEN 1 ELSE 1 + (IF k < K(t) THEN Depth(L(t), k) ELSE Depth(R(t), k))
RECURSIVE Upd(_, _, _, _)
Upd(t, k, fld, v) == IF t = Nil THEN Nil ELSE IF k = K(t) THEN [t EXCEPT ![fld] = v]
                     ELSE IF k < K(t) THEN SetL(t, Upd(L(t), k, fld, v)) ELSE SetR(t, Upd(R(t), k, fld, v))
RECURSIVE ClearTids(_)
ClearTids(t) == IF t = Nil THEN Nil ELSE [t EXCEPT ![4] = 0, ![6] = ClearTids(L(t)), ![7] = ClearTids(R(t))]
RECURSIVE Height(_)
Height(t) == IF t = Nil THEN 0 ELSE 1 + (IF Height(L(t)) > Height(R(t)) THEN Height(L(t)) ELSE Height(R(t)))
RECURSIVE Count(_)
Count(t) == IF t = Nil THEN 0 ELSE 1 + Count(L(t)) + Count(R(t))
KeySetOf(t) == {InOrder(t)[i] : i \in 1..Len(InOrder(t))}
AbsMap(t) == LET kv == InOrderKV(t) IN [k \in {kv[i][1] : i \in 1..Len(kv)} |-> V(Find(t, k))]

\* ---- red-black validity (C02), evaluated on model states and on shapes projected from the real tree ----
RECURSIVE BlackHeight(_)      \* -1 if the black heights of the subtrees differ
BlackHeight(t) == IF t = Nil THEN 1
                  ELSE LET l == BlackHeight(L(t)) r == BlackHeight(R(t)) IN
                       IF l < 0 \/ r < 0 \/ l # r THEN -1 ELSE IF Red(t) THEN l ELSE l + 1
RECURSIVE NoRedRed(_)
NoRedRed(t) == t = Nil \/ (~(Red(t) /\ (IsRed(L(t)) \/ IsRed(R(t)))) /\ NoRedRed(L(t)) /\ NoRedRed(R(t)))
RECURSIVE LeftLean(_)         \* no right-leaning lone red link
LeftLean(t) == t = Nil \/ (~(IsRed(R(t)) /\ ~IsRed(L(t))) /\ LeftLean(L(t)) /\ LeftLean(R(t)))
Sorted(s) == \A i \in 1..(Len(s) - 1) : s[i] < s[i + 1]
Pow2(n) == 2 ^ n
Valid(t) == /\ ~IsRed(t) /\ NoRedRed(t) /\ BlackHeight(t) > 0 /\ LeftLean(t) /\ Sorted(InOrder(t))
            /\ Pow2(Height(t)) <= (Count(t) + 1) * (Count(t) + 1)           \* height <= 2*log2(n+1)

\* ---- iterator machinery (C03, C04) ----
\* reset_iterator: returns <<tree, tid>>
Reset(t, tid) ==
  LET t1 == IF t = Nil THEN t ELSE [t EXCEPT ![5] = 0]
      n == (tid + 1) % TidMod
  IN IF FixWrap /\ n = 0 THEN <<ClearTids(t1), 1>> ELSE <<t1, n>>
\* the loop of qtreetbl_getnext from cursor node c with epoch tid; returns <<tree, result>>,
\* result in Keys, 0 = end, -1 = followed a dangling link, -2 = did not terminate within the fuel
RECURSIVE GN(_, _, _, _)
GN(t, c, tid, fuel) ==
  IF c = 0 THEN <<t, 0>>
  ELSE IF c = -1 THEN <<t, -1>>
  ELSE IF fuel = 0 THEN <<t, -2>>
  ELSE LET n == Find(t, c) IN
    IF L(n) # Nil /\ Tid(L(n)) # tid THEN GN(Upd(t, K(L(n)), 5, c), K(L(n)), tid, fuel - 1)
    ELSE IF Tid(n) # tid THEN <<Upd(t, c, 4, tid), c>>
    ELSE IF R(n) # Nil /\ Tid(R(n)) # tid THEN GN(Upd(t, K(R(n)), 5, c), K(R(n)), tid, fuel - 1)
    ELSE GN(t, Nx(n), tid, fuel - 1)
\* find_nearest, descent: records parent links; returns <<tree, foundKey (0 if none), lastKey>>
RECURSIVE Desc(_, _, _, _)
Desc(t, sub, p, last) ==
  IF sub = Nil THEN <<t, 0, last>>
  ELSE IF p = K(sub) THEN <<t, p, last>>
  ELSE IF p < K(sub) THEN
        Desc(IF L(sub) # Nil THEN Upd(t, K(L(sub)), 5, K(sub)) ELSE t, L(sub), p, K(sub))
  ELSE  Desc(IF R(sub) # Nil THEN Upd(t, K(R(sub)), 5, K(sub)) ELSE t, R(sub), p, K(sub))
\* find_nearest, climb: key, 0 (NULL reached), -1 dangling, -2 loop
RECURSIVE Climb(_, _, _, _)
Climb(t, c, p, fuel) ==
  IF c = 0 THEN 0 ELSE IF c = -1 THEN -1 ELSE IF fuel = 0 THEN -2
  ELSE IF p < c THEN Climb(t, Nx(Find(t, c)), p, fuel - 1) ELSE c
Fuel(t) == 4 * Count(t) + 8
\* result of find_nearest on tree t for probe p: <<tree', found>>  (found < 0: dangling / loop)
NearestOp(t, p) ==
  LET t0 == IF FixRootNext THEN [t EXCEPT ![5] = 0] ELSE t
      d == Desc(t0, t0, p, K(t0))
      found == IF d[2] # 0 THEN d[2]
               ELSE LET c == Climb(d[1], d[3], p, Fuel(t)) IN IF c = 0 THEN d[3] ELSE c
  IN <<d[1], found>>
FloorOf(S, p) == IF \E k \in S : k <= p THEN CHOOSE k \in S : k <= p /\ \A j \in S : j <= p => j <= k
                 ELSE CHOOSE k \in S : \A j \in S : k <= j
\* one getnext call from cursor c on table (t, tid): <<tree', ttid', cur', result>>, result as GN plus
\* 0 meaning "end reported"
None == [tid |-> 0, nx |-> 0]
GetNextOp(t, tt, c) ==
  IF c.nx = 0 /\ t = Nil THEN <<t, tt, c, 0>>
  ELSE LET first == (c.nx = 0)
           rs == IF first THEN Reset(t, tt) ELSE <<t, tt>>
           tid == IF first THEN rs[2] ELSE c.tid
           start == IF first THEN K(rs[1]) ELSE c.nx
           g == GN(rs[1], start, tid, Fuel(t))
       IN IF g[2] > 0 THEN <<g[1], rs[2], [tid |-> tid, nx |-> g[2]], g[2]>>
          ELSE IF g[2] = 0 THEN LET re == Reset(g[1], rs[2]) IN <<re[1], re[2], c, 0>>
          ELSE <<g[1], rs[2], c, g[2]>>
\* a complete walk from a zeroed cursor: <<tree', ttid', output, status>> status 0 ok / -1 / -2
RECURSIVE WalkFrom(_, _, _, _, _)
WalkFrom(t, tt, c, acc, fuel) ==
  LET g == GetNextOp(t, tt, c) IN
  IF g[4] > 0 /\ fuel > 0 THEN WalkFrom(g[1], g[2], g[3], Append(acc, g[4]), fuel - 1)
  ELSE IF g[4] > 0 THEN <<g[1], g[2], acc, -2>>
  ELSE <<g[1], g[2], acc, g[4]>>
WalkAll(t, tt) == WalkFrom(t, tt, None, <<>>, Count(t) + 2)

\* ---------------------------------------------------------------- the model
vars == <<tree, ttid, cur, out, mode, unfinished, bad, lastOp>>
KeySet == KeySetOf(tree)
Op(name, a, b, res) == [op |-> name, a |-> a, b |-> b, res |-> res]
Init == /\ tree = Nil /\ ttid = 1 /\ cur = None /\ out = <<>> /\ mode = "idle"
        /\ unfinished = FALSE /\ bad = "" /\ lastOp = Op("init", 0, 0, 0)
Idle == mode = "idle" /\ bad = ""
Put(k, v) == /\ Idle /\ tree' = PutTree(tree, k, v) /\ lastOp' = Op("put", k, v, 1)
             /\ UNCHANGED <<ttid, cur, out, mode, unfinished, bad>>
Remove(k) == /\ Idle /\ tree' = RemTree(tree, k) /\ lastOp' = Op("rm", k, 0, IF k \in KeySet THEN 1 ELSE 0)
             /\ UNCHANGED <<ttid, cur, out, mode, unfinished, bad>>
Get(k) == /\ Idle /\ lastOp' = Op("get", k, 0, IF k \in KeySet THEN V(Find(tree, k)) ELSE 0)
          /\ UNCHANGED <<tree, ttid, cur, out, mode, unfinished, bad>>
FindMin == /\ Idle /\ lastOp' = Op("min", 0, 0, IF tree = Nil THEN 0 ELSE K(MinNode(tree)))
           /\ UNCHANGED <<tree, ttid, cur, out, mode, unfinished, bad>>
FindMax == /\ Idle /\ lastOp' = Op("max", 0, 0, IF tree = Nil THEN 0 ELSE K(MaxNode(tree)))
           /\ UNCHANGED <<tree, ttid, cur, out, mode, unfinished, bad>>
SizeOp == /\ Idle /\ lastOp' = Op("size", 0, 0, Count(tree))
          /\ UNCHANGED <<tree, ttid, cur, out, mode, unfinished, bad>>
Debug == /\ Idle /\ lastOp' = Op("debug", 0, 0, 1)             \* printing the tree changes nothing
         /\ UNCHANGED <<tree, ttid, cur, out, mode, unfinished, bad>>
Clear == /\ Idle /\ tree' = Nil /\ lastOp' = Op("clear", 0, 0, 0)
         /\ UNCHANGED <<ttid, cur, out, mode, unfinished, bad>>
\* one getnext call; at the end of a walk its output is compared with the sorted contents (C03) or,
\* for a continuation from a nearest-key search, with the key set (C04)
GetNext ==
  /\ bad = "" /\ mode \in {"idle", "walk", "nwalk", "rmwalk", "rmwalk-r"}
  /\ LET g == GetNextOp(tree, ttid, cur) IN
     IF g[4] > 0 THEN
        /\ tree' = g[1] /\ ttid' = g[2] /\ cur' = g[3] /\ out' = Append(out, g[4])
        /\ mode' = IF mode = "idle" THEN "walk" ELSE IF mode = "rmwalk-r" THEN "rmwalk" ELSE mode
        /\ unfinished' = TRUE /\ lastOp' = Op("next", 0, 0, g[4]) /\ UNCHANGED bad
     ELSE IF g[4] = 0 THEN
        /\ tree' = g[1] /\ ttid' = g[2] /\ cur' = None /\ mode' = "idle" /\ out' = <<>>
        /\ unfinished' = (IF tree = Nil THEN unfinished ELSE FALSE)
        /\ lastOp' = Op("next", 0, 0, 0)
        /\ bad' = IF mode = "nwalk"
                  THEN (IF Len(out) = Count(tree) /\ {out[i] : i \in 1..Len(out)} = KeySet THEN "" ELSE "nwalk-wrong")
                  ELSE IF mode \in {"rmwalk", "rmwalk-r"}          \* a full sweep is not promised; no key twice, ascending
                  THEN (IF \A i, j \in 1..Len(out) : i < j => out[i] < out[j] THEN "" ELSE "rmwalk-order")
                  ELSE (IF out = InOrder(tree) THEN "" ELSE "walk-wrong")
     ELSE /\ bad' = (IF g[4] = -1 THEN "walk-dangling" ELSE "walk-loop")
          /\ UNCHANGED <<tree, ttid, cur, out, mode, unfinished, lastOp>>
\* The documented "removal in an iteration loop": remove the key getnext has just returned, then re-seat the cursor with
\* find_nearest(removed key) ("rewind one step back") and go on calling getnext.  The documentation does not promise a full
\* sweep after a removal; what the model demands is that the loop stays memory-safe and ends (no dangling link followed, fuel
\* not exhausted: Good), that the search returns the floor of the removed key, and that no key is returned twice.
RemoveInLoop ==
  /\ bad = "" /\ mode \in {"walk", "rmwalk"} /\ out # <<>>
  /\ LET k == out[Len(out)]
         t1 == RemTree(tree, k)
     IN IF t1 = Nil THEN /\ tree' = Nil /\ cur' = None /\ lastOp' = Op("rmnext", k, 0, 0) /\ UNCHANGED bad
        ELSE LET r == NearestOp(t1, k)  found == r[2] IN
             /\ tree' = r[1] /\ lastOp' = Op("rmnext", k, 0, found)
             /\ IF found < 0 THEN bad' = (IF found = -1 THEN "rmloop-dangling" ELSE "rmloop-loop") /\ UNCHANGED cur
                ELSE IF found # FloorOf(KeySetOf(t1), k) THEN bad' = "rmloop-wrong" /\ UNCHANGED cur
                ELSE cur' = [tid |-> ttid, nx |-> found] /\ UNCHANGED bad
  /\ mode' = "rmwalk-r" /\ UNCHANGED <<ttid, out, unfinished>>         \* "-r": a getnext must come before the next removal
Abandon == /\ bad = "" /\ mode \in {"walk", "nwalk", "rmwalk", "rmwalk-r"} /\ mode' = "idle" /\ cur' = None /\ out' = <<>>
           /\ lastOp' = Op("abandon", 0, 0, 0) /\ UNCHANGED <<tree, ttid, unfinished, bad>>
\* nearest-key search for probe p; cont = 1: the client goes on calling getnext from the returned cursor
Nearest(p, cont) ==
  /\ Idle /\ tree # Nil /\ (cont = 1 => ~unfinished)
  /\ LET r == NearestOp(tree, p)  found == r[2] IN
        /\ tree' = r[1] /\ lastOp' = Op("nearest", p, cont, found)
        /\ IF found < 0 THEN bad' = (IF found = -1 THEN "near-dangling" ELSE "near-loop") /\ UNCHANGED <<cur, mode, out>>
           ELSE IF found # FloorOf(KeySet, p) THEN bad' = "near-wrong" /\ UNCHANGED <<cur, mode, out>>
           ELSE /\ UNCHANGED bad
                /\ IF cont = 0 THEN UNCHANGED <<cur, mode, out>>
                   ELSE cur' = [tid |-> ttid, nx |-> found] /\ mode' = "nwalk" /\ out' = <<>>
        /\ UNCHANGED <<ttid, unfinished>>
\* a nearest-key search on an empty table reports "not found" (and nothing else happens)
NearestEmpty == /\ Idle /\ tree = Nil /\ lastOp' = Op("nearest", 1, 0, 0) /\ UNCHANGED <<tree, ttid, cur, out, mode, unfinished, bad>>
Next == \/ \E k \in Keys, v \in Vals : Put(k, v)
        \/ \E k \in Keys : Remove(k) \/ Get(k)
        \/ FindMin \/ FindMax \/ SizeOp \/ Clear \/ Debug
        \/ (WithIter /\ (GetNext \/ Abandon \/ \E p \in 0..(MaxKey + 1), c \in 0..1 : Nearest(p, c)))
        \/ (WithIter /\ RemoveInLoop)
        \/ (WithIter /\ NearestEmpty)
Spec == Init /\ [][Next]_vars

\* ---------------------------------------------------------------- properties checked on the model
Good == bad = ""                                 \* C03/C04: no walk or search ever went wrong
TreeValid == Valid(tree)                         \* C02
\* C01: refinement to the ideal sorted map, with labelled steps
\* (the removal inside an iteration loop is, for the map, the removal of a present key)
Abs == INSTANCE SortedMap WITH map <- AbsMap(tree),
          last <- IF lastOp.op = "rmnext" THEN [op |-> "rm", a |-> lastOp.a, b |-> 0, res |-> 1]
                  ELSE [op |-> lastOp.op, a |-> lastOp.a, b |-> lastOp.b, res |-> lastOp.res]
RefinesSortedMap == Abs!Spec
View == <<tree, ttid, cur, out, mode, unfinished, bad>>
Proj(t, tt, c, o, m, u) == [tree |-> t, ttid |-> tt, cur |-> c, out |-> o, mode |-> m, unf |-> u]
Dump == PrintT(ToJson([from |-> Proj(tree, ttid, cur, out, mode, unfinished), op |-> lastOp',
                       to |-> Proj(tree', ttid', cur', out', mode', unfinished')]))
=========================================================================
