---- MODULE CodecSelf ----
(* Self-check of the reference definitions: Dec(Enc(x)) = x for every byte string up to MaxLen over Bytes. *)
EXTENDS Codec
CONSTANTS Bytes, MaxLen
VARIABLE x
Init == x = <<>>
Next == Len(x) < MaxLen /\ \E b \in Bytes : x' = Append(x, b)
RoundTrip == /\ B64Dec(B64Enc(x)) = x /\ HexDec(HexEnc(x)) = x /\ WellFormedHex(HexEnc(x))
             /\ Len(B64Enc(x)) = 4 * ((Len(x) + 2) \div 3)
====
