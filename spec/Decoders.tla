----------------------------- MODULE Decoders -----------------------------
(* The in-place decoders of src/utilities/qencode.c as cursor machines (C17): a buffer holding the   *)
(* input and its terminator, a read cursor r and a write cursor w, one action per loop iteration as   *)
(* in the C code.  TLC runs the machines over every input string up to MaxLen over the format's        *)
(* significant bytes and checks that the read cursor never passes the terminator, that the write      *)
(* cursor never overtakes the read cursor (so the output is never longer than the input) and that      *)
(* every run terminates.  StopAtTerminator = FALSE is the pinned code: '%' consumes two more bytes      *)
(* whatever they are and the hex decoder always advances by two.                                      *)
EXTENDS Integers, Sequences, TLC
CONSTANTS Alphabet, MaxLen, Machine, StopAtTerminator
VARIABLES buf, r, w, phase
vars == <<buf, r, w, phase>>
N == Len(buf) - 1                     \* input length; buf[N + 1] = 0 is the terminator
Init == /\ buf = <<0>> /\ r = 1 /\ w = 1 /\ phase = "build"
\* phase "build": choose the input; phase "run": the decoder's loop
Extend == /\ phase = "build" /\ Len(buf) - 1 < MaxLen
          /\ \E c \in Alphabet : buf' = SubSeq(buf, 1, Len(buf) - 1) \o <<c, 0>>
          /\ UNCHANGED <<r, w, phase>>
Start == phase = "build" /\ phase' = "run" /\ UNCHANGED <<buf, r, w>>
IsHex(c) == c \in {48, 57, 97, 70, 102}          \* the hex digits present in the alphabets: 0 9 a F f
UrlStep == /\ Machine = "url" /\ phase = "run" /\ buf[r] # 0
           /\ IF buf[r] = 37 THEN      \* '%'
                 IF StopAtTerminator /\ (buf[r + 1] = 0 \/ buf[r + 2] = 0)
                 THEN r' = r + 1 /\ w' = w + 1            \* truncated escape: copied literally
                 ELSE r' = r + 3 /\ w' = w + 1            \* reads buf[r+1], buf[r+2]
              ELSE r' = r + 1 /\ w' = w + 1
           /\ UNCHANGED <<buf, phase>>
HexStep == /\ Machine = "hex" /\ phase = "run" /\ buf[r] # 0
           /\ IF StopAtTerminator /\ buf[r + 1] = 0
              THEN r' = r + 1 /\ w' = w + 1               \* odd length: the last digit alone
              ELSE r' = r + 2 /\ w' = w + 1               \* reads buf[r+1]
           /\ UNCHANGED <<buf, phase>>
B64Step == /\ Machine = "b64" /\ phase = "run" /\ buf[r] # 0
           /\ r' = r + 1 /\ (w' = w \/ w' = w + 1) /\ w' <= r'      \* a sextet is skipped, buffered or completes a byte
           /\ UNCHANGED <<buf, phase>>
Finish == phase = "run" /\ r <= Len(buf) /\ buf[r] = 0 /\ phase' = "done" /\ UNCHANGED <<buf, r, w>>
Next == Extend \/ Start \/ UrlStep \/ HexStep \/ B64Step \/ Finish
Spec == Init /\ [][Next]_vars /\ WF_vars(UrlStep \/ HexStep \/ B64Step \/ Finish)
\* ---- properties ----
InBounds == r <= Len(buf)                               \* the terminator is the last byte ever read
\* every read of the step about to happen stays inside the buffer
ReadsInBounds == phase = "run" /\ r <= Len(buf) /\ buf[r] # 0 =>
                   (Machine = "url" /\ buf[r] = 37 /\ ~(StopAtTerminator /\ (buf[r + 1] = 0 \/ buf[r + 2] = 0)) => r + 2 <= Len(buf))
                   /\ (Machine = "hex" /\ ~(StopAtTerminator /\ buf[r + 1] = 0) => r + 1 <= Len(buf))
NoGrowth == w <= r                                      \* output never longer than the input consumed
Terminates == <>(phase = "done" \/ phase = "build")
===========================================================================
