------------------------------ MODULE IniRef ------------------------------
(* Reference semantics of the INI-style parser qconfig (C20).  An abstract document is a sequence of  *)
(* lines [t: "comment"|"blank"|"section"|"entry", name, parts: sequence of [k: "lit"|"var"|"env",     *)
(* txt]].  Eval(doc, env) is the expected list of <<name, value>> entries in file order: comments and  *)
(* blank lines ignored, the current section applied as "section." prefix, a section header also        *)
(* producing the marker entry <<"section.", "section">>, ${name} replaced by the value in effect at    *)
(* that line (last definition wins; an undefined name stays as written), ${%ENV} by the environment    *)
(* variable or the empty string.  Rendering to text (whitespace, comment placement) is the harness's.  *)
EXTENDS Integers, Sequences, TLC, Json, IOUtils, SequencesExt, TLCExt
Lookup(entries, n) == LET idx == {i \in 1..Len(entries) : entries[i][1] = n} IN
                      IF idx = {} THEN <<FALSE, "">> ELSE <<TRUE, entries[CHOOSE i \in idx : \A j \in idx : j <= i][2]>>
PartVal(entries, env, p) ==
  CASE p.k = "lit" -> p.txt
    [] p.k = "var" -> (LET r == Lookup(entries, p.txt) IN IF r[1] THEN r[2] ELSE "${" \o p.txt \o "}")
    [] p.k = "env" -> (IF p.txt \in DOMAIN env THEN env[p.txt] ELSE "")
Value(entries, env, parts) == FoldLeft(LAMBDA acc, p : acc \o PartVal(entries, env, p), "", parts)
Step(st, line, env) ==
  CASE line.t \in {"comment", "blank"} -> st
    [] line.t = "section" -> IF line.name = "" THEN [st EXCEPT !.sec = ""]
                             ELSE [sec |-> line.name, ents |-> Append(st.ents, <<line.name \o ".", line.name>>)]
    [] line.t = "entry" -> LET full == IF st.sec = "" THEN line.name ELSE st.sec \o "." \o line.name
                           IN [st EXCEPT !.ents = Append(@, <<full, Value(st.ents, env, line.parts)>>)]
Eval(doc, env) == FoldLeft(LAMBDA st, line : Step(st, line, env), [sec |-> "", ents |-> <<>>], doc).ents
ASSUME Eval(<< [t |-> "entry", name |-> "a", parts |-> <<[k |-> "lit", txt |-> "1"]>>],
               [t |-> "section", name |-> "s", parts |-> <<>>],
               [t |-> "entry", name |-> "b", parts |-> <<[k |-> "var", txt |-> "a"], [k |-> "lit", txt |-> "x"]>>] >>, <<>>)
       = << <<"a", "1">>, <<"s.", "s">>, <<"s.b", "1x">> >>
\* ---- trace validation ----
VARIABLE l
T == ndJsonDeserialize(IOEnv.TRACE)
NT == Len(T)
Ev == T[l]
EnvOf(e) == [n \in {e.env[i][1] : i \in 1..Len(e.env)} |-> (LET i == CHOOSE i \in 1..Len(e.env) : e.env[i][1] = n IN e.env[i][2])]
Init == l = 1
Next == /\ l <= NT /\ l' = l + 1
        /\ IF Ev.fn \in {"crash", "timeout"} THEN PrintT("REJECT " \o ToJson([l |-> l, why |-> {Ev.fn}, ev |-> Ev, exp |-> ""]))
           ELSE LET x == Eval(Ev.doc, EnvOf(Ev)) IN
                Ev.entries = x \/ PrintT("REJECT " \o ToJson([l |-> l, why |-> {"ini"}, ev |-> Ev, exp |-> x]))
Consumed == TLCGet("stats").diameter - 1 = NT
===========================================================================
