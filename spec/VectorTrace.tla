------------------------- MODULE VectorTrace -------------------------
(* Judges ndjson events recorded from the real qvector (harness/replay_vector.c) against       *)
(* Vector!Apply.  Resynchronising: a mismatching event is printed as a REJECT record and the   *)
(* rest of its segment is skipped, so one run reports every failing segment.                   *)
EXTENDS Vector, IOUtils, TLCExt, SequencesExt
CONSTANT Owned    \* reasons this run reports; result/state/enomem mismatches always force a resynchronisation
VARIABLES l, skipping, nbad
T == ndJsonDeserialize(IOEnv.TRACE)
NT == Len(T)
Ev == T[l]
tvars == <<elems, cap, lastOp, l, skipping, nbad>>
TInit == elems = <<>> /\ cap = InitCap /\ lastOp = [op |-> "init", i |-> 0, v |-> 0]
         /\ l = 1 /\ skipping = FALSE /\ nbad = 0
Expected == Apply(elems, cap, Ev.op, Ev.i, Ev.v)
\* --- conjuncts, each tagged with the property it belongs to ---
ResultOk(r) == /\ Ev.ok = r.ok
               /\ (~r.ok => Ev.err = r.err)
               /\ Ev.rv = r.v
               /\ Ev.arr = r.arr
StateOk(r) == Ev.elems = r.elems /\ Ev.cap >= Len(Ev.elems) /\ Ev.n = Len(r.elems)
\* allocation failure injected (inj > 0): the call either completed normally or reported
\* ENOMEM and left the contents exactly as they were (C15)
FailedCleanly == /\ Ev.inj > 0 /\ Ev.nfail > 0 /\ Ev.op \in Allocating
                 /\ Ev.ok = FALSE /\ Ev.err = 5
                 /\ Ev.elems = elems /\ Ev.n = Len(elems) /\ Ev.cap >= Len(elems)
                 /\ (Ev.op = "walk" => IsPrefix(Ev.arr, elems))
                 /\ (Ev.op # "walk" => Ev.arr = <<>>) /\ (Ev.op # "walk" => Ev.rv = 0)
Why == LET r == Expected IN
       IF Ev.op = "free" THEN
            (IF Ev.live # 0 THEN {"leak"} ELSE {}) \cup (IF ~Ev.copies_ok THEN {"copy"} ELSE {})
            \cup (IF Ev.lkd # 0 THEN {"lock"} ELSE {})
       ELSE (IF FailedCleanly \/ (ResultOk(r) /\ StateOk(r)) THEN {}
             ELSE IF Ev.inj > 0 THEN {"enomem"} ELSE IF ResultOk(r) THEN {"state"} ELSE {"result"})
            \cup (IF Ev.lkd # 0 THEN {"lock"} ELSE {})
            \cup (IF Ev.ovl # 0 THEN {"overlap"} ELSE {})
            \cup (IF Ev.bf # 0 THEN {"badfree"} ELSE {})
TNext == /\ l <= NT /\ l' = l + 1 /\ lastOp' = lastOp
         /\ IF Ev.op = "reset" THEN elems' = <<>> /\ cap' = Ev.cap /\ skipping' = FALSE /\ nbad' = nbad
            ELSE IF skipping THEN UNCHANGED <<elems, cap, skipping, nbad>>
            ELSE IF Ev.op = "ctor" THEN
                 \* constructor under allocation failure: a failed constructor leaves nothing allocated (C15)
                 IF Ev.live = 0 \/ "leak" \notin Owned THEN UNCHANGED <<elems, cap, skipping, nbad>>
                 ELSE PrintT("REJECT " \o ToJson([l |-> l, why |-> {"leak"}, ev |-> Ev, exp |-> "constructor leaked"])) /\ skipping' = TRUE /\ UNCHANGED <<elems, cap, nbad>>
            ELSE IF Ev.op \in {"crash", "timeout"} THEN
                 /\ PrintT("REJECT " \o ToJson([l |-> l, why |-> {Ev.op, "result"}, ev |-> Ev, exp |-> "no action admits this event"]))
                 /\ skipping' = TRUE /\ nbad' = nbad + 1 /\ UNCHANGED <<elems, cap>>
            ELSE IF Why \cap (Owned \cup {"result", "state", "enomem"}) = {} THEN
                 /\ UNCHANGED <<skipping, nbad>>
                 /\ IF Ev.op = "free" THEN UNCHANGED <<elems, cap>>
                    ELSE IF FailedCleanly /\ ~(ResultOk(Expected) /\ StateOk(Expected)) THEN UNCHANGED <<elems, cap>>
                    ELSE elems' = Expected.elems /\ cap' = Ev.cap
            ELSE /\ PrintT("REJECT " \o ToJson([l |-> l, why |-> Why, ev |-> Ev, exp |-> IF Ev.op = "free" THEN <<>> ELSE Expected]))
                 /\ skipping' = TRUE /\ nbad' = nbad + 1 /\ UNCHANGED <<elems, cap>>
Consumed == TLCGet("stats").diameter - 1 = NT
NoReject == TRUE
=======================================================================
