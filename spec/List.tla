------------------------------ MODULE List ------------------------------
(* qlist: a doubly linked list of byte strings, and its front-ends qqueue (FIFO), qstack (LIFO) *)
(* and qgrow (concatenation)  - property C09.                                                   *)
(* State: seq (the elements, by value id) and max (element limit, 0 = unlimited).  A value id   *)
(* stands for a byte string given by the table vb (sequence of byte sequences), so sizes,       *)
(* toarray and tostring are computed from real bytes.  Apply is the single definition of every  *)
(* operation's observable result, shared by the model and by ListTrace.                         *)
EXTENDS Integers, Sequences, TLC, Json, SequencesExt
CONSTANTS MaxLen,     \* model bound on the number of elements
          Vals,       \* value ids used by the model
          Maxes,      \* element limits the model tries (setsize)
          Kind        \* "list" | "queue" | "stack" | "grow"
VARIABLES seq, max, lastOp
vars == <<seq, max, lastOp>>

\* default byte table of the model: "ab\0" (trailing NUL), "c" (no NUL), "d\0e" (embedded NUL), an 8-byte integer
VBdefault == << <<97, 98, 0>>, <<99>>, <<100, 0, 101>>, <<8, 7, 6, 5, 4, 3, 2, 1>> >>
Size(vb, v) == Len(vb[v])
\* tostring drops one trailing NUL of each element
StrBytes(vb, v) == LET b == vb[v] IN IF b[Len(b)] = 0 THEN SubSeq(b, 1, Len(b) - 1) ELSE b
SumSize(vb, s) == FoldLeft(LAMBDA acc, v : acc + Size(vb, v), 0, s)
CatBytes(vb, s) == FoldLeft(LAMBDA acc, v : acc \o vb[v], <<>>, s)
CatStr(vb, s) == FoldLeft(LAMBDA acc, v : acc \o StrBytes(vb, v), <<>>, s)

\* error classes: 0 none 1 ENOENT 2 EINVAL 3 ERANGE 4 ENOBUFS 5 ENOMEM
Res(s, m, ok, err, v, n, bytes) == [seq |-> s, max |-> m, ok |-> ok, err |-> err, v |-> v, n |-> n, bytes |-> bytes]
Ins(s, i, v) == SubSeq(s, 1, i) \o <<v>> \o SubSeq(s, i + 1, Len(s))
Del(s, i) == SubSeq(s, 1, i) \o SubSeq(s, i + 2, Len(s))
Rev(s) == [j \in 1..Len(s) |-> s[Len(s) + 1 - j]]
\* qlist_addat: negative index i means position n+i+1 (-1 = append); refused when full or out of range
AddAt(s, m, i, v) == LET n == Len(s)  idx == IF i < 0 THEN n + i + 1 ELSE i IN
   IF m > 0 /\ n >= m THEN Res(s, m, FALSE, 4, 0, 0, <<>>)
   ELSE IF idx < 0 \/ idx > n THEN Res(s, m, FALSE, 3, 0, 0, <<>>)
   ELSE Res(Ins(s, idx, v), m, TRUE, 0, 0, 0, <<>>)
\* get_obj: negative index i means position n+i
Loc(s, i) == LET n == Len(s)  idx == IF i < 0 THEN n + i ELSE i IN IF idx < 0 \/ idx >= n THEN -1 ELSE idx
GetAt(vb, s, m, i) == LET p == Loc(s, i) IN
   IF p < 0 THEN Res(s, m, FALSE, 3, 0, 0, <<>>) ELSE Res(s, m, TRUE, 0, s[p + 1], Size(vb, s[p + 1]), <<>>)
PopAt(vb, s, m, i) == LET p == Loc(s, i) IN
   IF p < 0 THEN Res(s, m, FALSE, 3, 0, 0, <<>>) ELSE Res(Del(s, p), m, TRUE, 0, s[p + 1], Size(vb, s[p + 1]), <<>>)
RemAt(s, m, i) == LET p == Loc(s, i) IN
   IF p < 0 THEN Res(s, m, FALSE, 3, 0, 0, <<>>) ELSE Res(Del(s, p), m, TRUE, 0, 0, 0, <<>>)

Apply(vb, s, m, op, i, v) ==
  CASE op = "addat" -> AddAt(s, m, i, v) [] op = "addfirst" -> AddAt(s, m, 0, v) [] op = "addlast" -> AddAt(s, m, -1, v)
    [] op = "getat" -> GetAt(vb, s, m, i) [] op = "getfirst" -> GetAt(vb, s, m, 0) [] op = "getlast" -> GetAt(vb, s, m, -1)
    [] op = "popat" -> PopAt(vb, s, m, i) [] op = "popfirst" -> PopAt(vb, s, m, 0) [] op = "poplast" -> PopAt(vb, s, m, -1)
    [] op = "removeat" -> RemAt(s, m, i) [] op = "removefirst" -> RemAt(s, m, 0) [] op = "removelast" -> RemAt(s, m, -1)
    [] op = "reverse" -> Res(Rev(s), m, TRUE, 0, 0, 0, <<>>)
    [] op = "clear" -> Res(<<>>, m, TRUE, 0, 0, 0, <<>>)
    [] op = "setsize" -> Res(s, i, TRUE, 0, 0, m, <<>>)            \* returns the previous limit
    [] op = "toarray" -> IF s = <<>> THEN Res(s, m, FALSE, 1, 0, 0, <<>>)
                         ELSE Res(s, m, TRUE, 0, 0, SumSize(vb, s), CatBytes(vb, s))
    [] op = "tostring" -> IF s = <<>> THEN Res(s, m, FALSE, 1, 0, 0, <<>>)
                          ELSE Res(s, m, TRUE, 0, 0, Len(CatStr(vb, s)), CatStr(vb, s) \o <<0>>)
    [] op = "walk" -> Res(s, m, TRUE, 0, 0, Len(s), s)               \* complete getnext loop: value ids in order
    [] op = "sizes" -> Res(s, m, TRUE, 0, Len(s), SumSize(vb, s), <<>>)
    [] op = "debug" -> Res(s, m, TRUE, 0, 0, 0, <<>>)               \* printing the container changes nothing
    \* front-ends: queue pushes at the back, stack at the front; both pop/get at the front; grow appends
    [] op = "push" -> AddAt(s, m, IF Kind = "stack" THEN 0 ELSE -1, v)
    [] op = "pop" -> PopAt(vb, s, m, 0)
    [] op = "get" -> GetAt(vb, s, m, 0)

Adds == {"addat", "addfirst", "addlast", "push"}
ListOps == [idxv |-> {"addat"}, idx |-> {"getat", "popat", "removeat"}, val |-> {"addfirst", "addlast"},
            noarg |-> {"getfirst", "getlast", "popfirst", "poplast", "removefirst", "removelast", "reverse", "clear",
                       "toarray", "tostring", "walk", "sizes", "debug"}]
QueueOps == [idxv |-> {}, idx |-> {"getat", "popat"}, val |-> {"push"}, noarg |-> {"pop", "get", "clear", "sizes", "debug"}]
GrowOps == [idxv |-> {}, idx |-> {}, val |-> {"push"}, noarg |-> {"toarray", "tostring", "clear", "sizes", "debug"}]
Ops == IF Kind = "list" THEN ListOps ELSE IF Kind = "grow" THEN GrowOps ELSE QueueOps
Allocating == Adds \cup {"getat", "getfirst", "getlast", "popat", "popfirst", "poplast", "toarray", "tostring", "walk",
                         "pop", "get"}

Init == seq = <<>> /\ max = 0 /\ lastOp = [op |-> "init", i |-> 0, v |-> 0]
Do(op, i, v) == /\ (op \in Adds => Len(seq) < MaxLen)
                /\ LET r == Apply(VBdefault, seq, max, op, i, v) IN seq' = r.seq /\ max' = r.max
                /\ lastOp' = [op |-> op, i |-> i, v |-> v]
Next == \/ \E op \in Ops.idxv, i \in (-Len(seq) - 2)..(Len(seq) + 2), v \in Vals : Do(op, i, v)
        \/ \E op \in Ops.idx, i \in (-Len(seq) - 2)..(Len(seq) + 2) : Do(op, i, 0)
        \/ \E op \in Ops.val, v \in Vals : Do(op, 0, v)
        \/ \E op \in Ops.noarg : Do(op, 0, 0)
        \/ (Kind # "grow" /\ \E m \in Maxes : Do("setsize", m, 0))
Spec == Init /\ [][Next]_vars

\* ---- design properties ----
TypeOK == seq \in Seq(Vals) /\ max \in Maxes
\* the limit is enforced by insertions (it may be lowered below the current length afterwards)
LimitRespected == [][max > 0 /\ Len(seq) >= max => Len(seq') <= Len(seq)]_vars
RefusalsHarmless == [][~Apply(VBdefault, seq, max, lastOp'.op, lastOp'.i, lastOp'.v).ok => seq' = seq]_vars
\* FIFO / LIFO: what pop returns is the oldest (queue) / newest (stack) element still stored
View == <<seq, max>>
Dump == PrintT(ToJson([from |-> <<seq, max>>, op |-> lastOp', to |-> <<seq', max'>>]))
=========================================================================
