--------------------------- MODULE HashArrTrace ---------------------------
(* Judges events recorded from the real qhasharr (harness/replay_hasharr.c).  Every event carries  *)
(* the decoded raw image of the region, the observations made through the mutating handle and the  *)
(* same observations made through a second handle attached to a relocated copy of the region.      *)
(*   result/state (C06): return values and errno class, the exact put rule, every key's get, the   *)
(*                       size triple (keys, capacity, used slots = sum of Need), the walk          *)
(*   image/reloc/guard (C07): WellFormed evaluated by TLC on the real image, Abs(image) = map,     *)
(*                       relocated observations equal, canaries intact                             *)
(* Informational (CONFORM): slot-by-slot equality with the transcription's prediction.             *)
EXTENDS MC_HashArr, IOUtils, TLCExt
CONSTANT Owned, NKeys
VARIABLES l, skipping, nconf, ncmp
T == ndJsonDeserialize(IOEnv.TRACE)
NT == Len(T)
Ev == T[l]
KeysN == 1..NKeys
HomeT == T[1].homes
Real(e) == [s |-> [i \in Idx |-> e.img[i + 1]], used |-> e.size[3], num |-> e.size[1]]
EmptySt == [s |-> [i \in Idx |-> Empty], used |-> 0, num |-> 0]
Sane(x) == \A i \in Idx : /\ x.s[i].link \in -1..(N - 1) /\ x.s[i].hash \in Idx /\ x.s[i].count \in -2..N
                          /\ (x.s[i].count \in {-1} \cup 1..N => x.s[i].key \in Keys)
WF(x) == Sane(x) /\ WellFormed(x)
Without(m, k) == [j \in DOMAIN m \ {k} |-> m[j]]
With(m, k, v) == [j \in DOMAIN m \cup {k} |-> IF j = k THEN v ELSE m[j]]
IsKeySlot(x, i) == x.s[i].count > 0 \/ x.s[i].count = -1
UsedOf(m) == LET RECURSIVE S(_) S(ks) == IF ks = {} THEN 0 ELSE LET k == CHOOSE k \in ks : TRUE IN Need(m[k][2]) + S(ks \ {k}) IN S(DOMAIN m)
\* ---- abstract expectation ----
ExpOk == CASE Ev.op = "put" -> Ev.len > 0 /\ PutOk(st, map, Ev.a, Ev.len)         \* an empty value is refused as an invalid argument
           [] Ev.op = "rm" -> Ev.a \in DOMAIN map
           [] Ev.op = "rmidx" -> IsKeySlot(st, Ev.a)
           [] Ev.op = "get" -> Ev.a \in DOMAIN map
           [] OTHER -> TRUE
ExpErr == CASE Ev.op = "put" -> (IF Ev.len = 0 THEN 2 ELSE 4) [] Ev.op \in {"rm", "get", "rmidx"} -> 1 [] OTHER -> 0
\* the abstract map after the call; a refused put may leave its own key unchanged or absent (decided by what is observed)
NewMaps == CASE Ev.op = "put" -> IF ExpOk THEN {With(map, Ev.a, <<Ev.vid, Ev.len>>)} ELSE IF Ev.len = 0 THEN {map} ELSE {map, Without(map, Ev.a)}
             [] Ev.op = "rm" -> {Without(map, Ev.a)}
             [] Ev.op = "rmidx" -> IF IsKeySlot(st, Ev.a) THEN {Without(map, st.s[Ev.a].key)} ELSE {map}
             [] Ev.op = "clear" -> {<<>>}
             [] OTHER -> {map}
GetsOf(m) == [k \in KeysN |-> IF k \in DOMAIN m THEN m[k] ELSE <<0, 0>>]
WalkSet(w) == {<<w[i][1], w[i][2], w[i][3]>> : i \in 1..Len(w)}
ObsOk(m, size, gets, walk) ==
    /\ size = <<Cardinality(DOMAIN m), N, UsedOf(m)>>
    /\ gets = GetsOf(m)
    /\ Len(walk) = Cardinality(DOMAIN m) /\ WalkSet(walk) = {<<k, m[k][1], m[k][2]>> : k \in DOMAIN m}
Matching == {m \in NewMaps : ObsOk(m, Ev.size, Ev.gets, Ev.walk)}
ResultOk == /\ Ev.ok = ExpOk /\ (~ExpOk => Ev.err = ExpErr)
            /\ (Ev.op = "get" /\ ExpOk => <<Ev.rv, Ev.rsz>> = map[Ev.a])
FailedCleanly == Ev.inj > 0 /\ Ev.nfail > 0 /\ ~Ev.ok /\ ObsOk(map, Ev.size, Ev.gets, Ev.walk)
Why == IF Ev.op = "free" THEN (IF Ev.live # 0 THEN {"leak"} ELSE {}) \cup (IF ~Ev.copies_ok THEN {"copy"} ELSE {})
       ELSE (IF FailedCleanly THEN {}
             ELSE (IF ~ResultOk THEN {IF Ev.inj > 0 THEN "enomem" ELSE "result"} ELSE {})
                  \cup (IF Matching = {} THEN {IF Ev.inj > 0 THEN "enomem" ELSE "state"} ELSE {}))
            \cup (IF ~Sane(Real(Ev)) THEN {"image", "insane"}          \* links or counts outside the table: the model cannot even follow
                  ELSE IF ~WellFormed(Real(Ev)) THEN {"image"}
                  ELSE IF Matching # {} /\ Abs(Real(Ev)) \notin Matching THEN {"image"} ELSE {})
            \cup (IF <<Ev.rsize, Ev.rgets, Ev.rwalk>> # <<Ev.size, Ev.gets, Ev.walk>> THEN {"reloc"} ELSE {})
            \* two long-lived handles on the same region (calls alternate between them) observe the same
            \cup (IF <<Ev.ssize, Ev.sgets, Ev.swalk>> # <<Ev.size, Ev.gets, Ev.walk>> THEN {"reloc"} ELSE {})
            \cup (IF ~Ev.guard_ok THEN {"guard"} ELSE {})
            \cup (IF Ev.ovl # 0 THEN {"overlap"} ELSE {}) \cup (IF Ev.bf # 0 THEN {"badfree"} ELSE {})
\* ---- informational conformance: the transcription's next image from the previous real image ----
Pred == CASE Ev.op = "put" -> (IF Ev.len = 0 THEN st ELSE PutObj(st, Ev.a, <<Ev.vid, Ev.len>>, 3)[1])
          [] Ev.op = "rm" -> (LET i == GetIdx(st.s, Ev.a, Home[Ev.a]) IN IF i < 0 THEN st ELSE RemoveByIdx(st, i)[1])
          [] Ev.op = "rmidx" -> RemoveByIdx(st, Ev.a)[1]
          [] Ev.op = "clear" -> EmptySt
          [] OTHER -> st
SlotEq(r, m) == IF m.count = 0 THEN r.count = 0
                ELSE r.count = m.count /\ r.hash = m.hash /\ r.link = m.link /\ r.dsz = m.dsz
                     /\ r.key = m.key /\ r.vid = m.vid /\ r.part = m.part
Conforms == LET p == Pred IN (\A i \in Idx : SlotEq(Ev.img[i + 1], p.s[i])) /\ Ev.size[3] = p.used /\ Ev.size[1] = p.num
Reject(why, exp) == PrintT("REJECT " \o ToJson([l |-> l, why |-> why, ev |-> Ev, exp |-> exp]))
TInit == st = EmptySt /\ map = <<>> /\ lastOp = Lbl("init", 0, 0, 0) /\ l = 1 /\ skipping = FALSE /\ nconf = 0 /\ ncmp = 0
TNext == /\ l <= NT /\ l' = l + 1 /\ lastOp' = lastOp
         /\ IF Ev.op = "reset" THEN st' = EmptySt /\ map' = <<>> /\ skipping' = FALSE /\ UNCHANGED <<nconf, ncmp>>
            ELSE IF Ev.op = "ctorsz" THEN
                 \* the constructor on regions of many sizes, each flush against a guard page: it either refuses the region or creates a
                 \* table of at least one slot that fits into it, and writes nowhere else (bad = number of sizes where that failed)
                 /\ UNCHANGED <<st, map, nconf, ncmp>>
                 /\ IF Ev.bad = 0 \/ {"image", "guard"} \cap Owned = {} THEN UNCHANGED skipping
                    ELSE Reject({"image", "guard"}, "constructor accepted a region it does not fit into, or wrote outside it") /\ UNCHANGED skipping
            ELSE IF skipping THEN UNCHANGED <<st, map, skipping, nconf, ncmp>>
            ELSE IF Ev.op \in {"crash", "timeout"} THEN
                 Reject({Ev.op, "result", "image"}, "no action admits this event") /\ skipping' = TRUE /\ UNCHANGED <<st, map, nconf, ncmp>>
            ELSE IF Ev.op = "free" THEN
                 /\ UNCHANGED <<st, map, nconf, ncmp>>
                 /\ IF Why \cap Owned = {} THEN UNCHANGED skipping ELSE Reject(Why, <<>>) /\ skipping' = TRUE
            ELSE IF Why \cap (Owned \cup {"result", "state", "enomem", "insane"}) = {} THEN
                 /\ UNCHANGED skipping
                 /\ map' = (IF FailedCleanly THEN map ELSE CHOOSE m \in Matching : TRUE)
                 /\ st' = Real(Ev)
                 /\ ncmp' = (IF Ev.inj = 0 THEN ncmp + 1 ELSE ncmp)
                 /\ nconf' = (IF Ev.inj = 0 /\ Conforms THEN nconf + 1 ELSE nconf)
            ELSE /\ Reject(Why, [ok |-> ExpOk, used |-> st.used, num |-> st.num])
                 /\ skipping' = TRUE /\ UNCHANGED <<st, map, nconf, ncmp>>
         /\ (l = NT => PrintT("CONFORM " \o ToString(nconf') \o " " \o ToString(ncmp')))
Consumed == TLCGet("stats").diameter - 1 = NT
===========================================================================
