---------------------------- MODULE TreeTrace ----------------------------
(* Judges events recorded from the real qtreetbl (harness/replay_tree.c).                        *)
(*                                                                                                *)
(* Decisive (each tagged with the property that owns it):                                         *)
(*   result/state  C01  API results and the in-order (key,value) list against the ideal map `map` *)
(*   valid         C02  Valid() evaluated by TLC on the projected real tree, qtreetbl_check() = 0, *)
(*                      height and comparison-count bounds                                        *)
(*   walk          C03  every completed traversal returned exactly the sorted contents            *)
(*   nearest       C04  floor semantics computed from the key set only; continuation visits all   *)
(*   enomem/leak/lock/overlap/badfree/copy   C15/C11/C14/C12 monitors                             *)
(* Informational: the projected real tree after each call is compared with the tree predicted by  *)
(* TreeImpl's operators from the projected real tree before the call (shape, colours, stamps,     *)
(* parent links, epoch, cursor); the counts are printed as "CONFORM <equal> <compared>".          *)
EXTENDS TreeImpl, IOUtils, TLCExt, SequencesExt
CONSTANT Owned
VARIABLES map, l, skipping, nconf, ncmp
T == ndJsonDeserialize(IOEnv.TRACE)
NT == Len(T)
Ev == T[l]
Unknown == <<"?">>
Dom == DOMAIN map
EmptyMap == [k \in {} |-> 0]
SortedKV(m) == LET ks == SetToSortSeq(DOMAIN m, <) IN [i \in 1..Len(ks) |-> <<ks[i], m[ks[i]]>>]
MinOfS(S) == CHOOSE k \in S : \A j \in S : k <= j
MaxOfS(S) == CHOOSE k \in S : \A j \in S : j <= k
NewMap == CASE Ev.op = "put" -> [x \in Dom \cup {Ev.a} |-> IF x = Ev.a THEN Ev.b ELSE map[x]]
            [] Ev.op \in {"rm", "rmnext"} -> [x \in Dom \ {Ev.a} |-> map[x]]
            [] Ev.op = "clear" -> EmptyMap
            [] OTHER -> map
Pairs(s) == {s[i][1] : i \in 1..Len(s)}
\* ---- results (C01), walk results (C03), nearest results (C04) ----
ResultOk ==
  CASE Ev.op = "put" -> Ev.ok
    [] Ev.op = "get" -> IF Ev.a \in Dom
                        THEN (IF map[Ev.a] = 3 THEN Ev.rv \in {0, 3} /\ Ev.n = 0 ELSE Ev.ok /\ Ev.rv = map[Ev.a])
                        ELSE ~Ev.ok /\ Ev.err = 1
    [] Ev.op = "rm" -> Ev.ok = (Ev.a \in Dom) /\ (~Ev.ok => Ev.err = 1)
    [] Ev.op = "min" -> IF Dom = {} THEN ~Ev.ok /\ Ev.err = 1 ELSE Ev.ok /\ Ev.rk = MinOfS(Dom)
    [] Ev.op = "max" -> IF Dom = {} THEN ~Ev.ok /\ Ev.err = 1 ELSE Ev.ok /\ Ev.rk = MaxOfS(Dom)
    [] Ev.op = "rmnext" ->     \* documented removal in a getnext loop: removes the key just returned, rewinds to its floor
         /\ out # <<>> /\ mode \in {"walk", "rmwalk"} /\ Ev.a = out[Len(out)][1] /\ Ev.ok
         /\ (IF Dom \ {Ev.a} = {} THEN Ev.rk = 0 ELSE Ev.rk = FloorOf(Dom \ {Ev.a}, Ev.a) /\ Ev.rv = map[Ev.rk])
    [] Ev.op = "size" -> Ev.n = Cardinality(Dom)
    [] Ev.op = "debug" -> Ev.ok
    [] OTHER -> TRUE
WalkOk ==
  CASE Ev.op = "walk" -> Ev.out = SortedKV(map) /\ \A i \in 1..Len(Ev.out) : Ev.out[i][1] >= 1      \* every key is one that was stored, with its size
    [] Ev.op = "next" ->
         IF Ev.ok THEN Ev.rk >= 1 /\ Ev.rk \in Dom /\ Ev.rv = map[Ev.rk]
         ELSE /\ (mode \in {"idle", "walk"} /\ Ev.nfail = 0) => out = SortedKV(map)
              \* after removals inside the loop a full sweep is not promised: ascending, nothing twice
              /\ (mode \in {"rmwalk", "rmwalk-r"} /\ Ev.nfail = 0) => \A i, j \in 1..Len(out) : i < j => out[i][1] < out[j][1]
    [] OTHER -> TRUE
NearOk ==
  CASE Ev.op = "nearest" -> IF Dom = {} THEN ~Ev.ok /\ Ev.err = 1
                            ELSE Ev.ok /\ Ev.rk >= 1 /\ Ev.rk = FloorOf(Dom, Ev.a) /\ Ev.rv = map[Ev.rk]    \* a key that was stored (never -1: bytes nobody put)
    [] Ev.op = "next" -> (~Ev.ok /\ mode = "nwalk") => (Len(out) = Cardinality(Dom) /\ Pairs(out) = Dom)
    [] OTHER -> TRUE
\* ---- contents and structure after the call ----
StateOk(m) == /\ Ev.size = Cardinality(DOMAIN m) /\ Ev.cnt = Cardinality(DOMAIN m)
              /\ (Ev.hs => InOrderKV(Ev.shape) = SortedKV(m))
              /\ (Ev.full => Ev.ino = SortedKV(m))
\* a node without a key (NULL name, projected as key 0) has no place in any search order
RECURSIVE NoKeyless(_)
NoKeyless(t) == t = Nil \/ (t[1] # 0 /\ NoKeyless(t[6]) /\ NoKeyless(t[7]))
ValidOk == /\ Ev.chk = 0
           /\ (Ev.hs => Valid(Ev.shape) /\ NoKeyless(Ev.shape))
           /\ Ev.h <= 30 /\ Pow2(Ev.h) <= (Ev.cnt + 1) * (Ev.cnt + 1)
           /\ (Ev.op = "get" /\ Ev.cmps >= 0 => Ev.cmps <= 30 /\ Pow2(Ev.cmps) <= (Ev.cnt + 1) * (Ev.cnt + 1))
\* a call that reports failure must not hand out half of a result (a value copy without its key)
FailedCleanly == /\ Ev.inj > 0 /\ Ev.nfail > 0 /\ ~Ev.ok /\ StateOk(map) /\ Ev.half = 0
Monitors == (IF Ev.lkd # 0 THEN {"lock"} ELSE {}) \cup (IF Ev.ovl # 0 THEN {"overlap"} ELSE {})
            \cup (IF Ev.bf # 0 THEN {"badfree"} ELSE {})
Why == IF Ev.op = "free" THEN (IF Ev.live # 0 THEN {"leak"} ELSE {}) \cup (IF ~Ev.copies_ok THEN {"copy"} ELSE {})
       ELSE LET m == NewMap IN
            (IF FailedCleanly THEN {}
             ELSE (IF ~ResultOk THEN {IF Ev.inj > 0 THEN "enomem" ELSE "result"} ELSE {})
                  \cup (IF ~StateOk(m) THEN {IF Ev.inj > 0 THEN "enomem" ELSE "state"} ELSE {})
                  \cup (IF ~WalkOk THEN {IF Ev.inj > 0 THEN "enomem" ELSE "walk"} ELSE {})
                  \cup (IF ~NearOk THEN {IF Ev.inj > 0 THEN "enomem" ELSE "nearest"} ELSE {}))
            \cup (IF ~ValidOk THEN {"valid"} ELSE {})
            \cup Monitors
\* ---- informational conformance with the transcription ----
RECURSIVE ShapeEq(_, _)
ShapeEq(r, m) == IF m = Nil \/ r = Nil THEN r = m
                 ELSE /\ r[1] = m[1] /\ r[2] = m[2] /\ r[3] = m[3] /\ r[4] = m[4] /\ (m[5] = -1 \/ r[5] = m[5])
                      /\ ShapeEq(r[6], m[6]) /\ ShapeEq(r[7], m[7])
Pred == CASE Ev.op = "put" -> <<PutTree(tree, Ev.a, Ev.b), ttid, cur>>
          [] Ev.op = "rm" -> <<RemTree(tree, Ev.a), ttid, cur>>
          [] Ev.op = "clear" -> <<Nil, ttid, cur>>
          [] Ev.op = "next" -> LET g == GetNextOp(tree, ttid, cur) IN <<g[1], g[2], IF g[4] > 0 THEN g[3] ELSE None>>
          [] Ev.op = "abandon" -> <<tree, ttid, None>>
          [] Ev.op = "rmnext" -> LET t1 == RemTree(tree, Ev.a) IN
                                 IF t1 = Nil THEN <<Nil, ttid, None>>
                                 ELSE LET r == NearestOp(t1, Ev.a) IN <<r[1], ttid, [tid |-> ttid, nx |-> r[2]]>>
          [] Ev.op = "nearest" -> IF tree = Nil THEN <<tree, ttid, cur>>
                                  ELSE LET r == NearestOp(tree, Ev.a) IN
                                       <<r[1], ttid, IF Ev.b = 1 /\ r[2] > 0 THEN [tid |-> ttid, nx |-> r[2]] ELSE cur>>
          [] Ev.op = "walk" -> LET w == WalkAll(tree, ttid) IN <<w[1], w[2], cur>>
          [] OTHER -> <<tree, ttid, cur>>
Conforms == LET p == Pred IN /\ ShapeEq(Ev.shape, p[1]) /\ Ev.ttid = p[2]
                             /\ Ev.ctid = p[3].tid /\ (p[3].nx = -1 \/ Ev.cnx = p[3].nx)
Comparable == tree # Unknown /\ Ev.hs /\ Ev.inj = 0
\* ---- the trace automaton ----
TInit == /\ tree = Nil /\ ttid = 1 /\ cur = None /\ out = <<>> /\ mode = "idle" /\ unfinished = FALSE /\ bad = ""
         /\ lastOp = Op("init", 0, 0, 0) /\ map = EmptyMap /\ l = 1 /\ skipping = FALSE /\ nconf = 0 /\ ncmp = 0
Reject(why, exp) == PrintT("REJECT " \o ToJson([l |-> l, why |-> why, ev |-> Ev, exp |-> exp]))
Ghost ==   \* traversal bookkeeping (hypotheses of C03/C04), following the recorded results
  CASE Ev.op = "next" ->
         IF Ev.ok THEN /\ out' = Append(out, <<Ev.rk, Ev.rv>>) /\ mode' = (IF mode = "idle" THEN "walk" ELSE IF mode = "rmwalk-r" THEN "rmwalk" ELSE mode)
                       /\ unfinished' = TRUE
         ELSE IF Ev.nfail > 0 THEN UNCHANGED <<out, mode, unfinished>>      \* failed copy: the call is repeated
         ELSE /\ out' = <<>> /\ mode' = "idle"
              /\ unfinished' = (IF Dom = {} THEN unfinished ELSE FALSE)
    [] Ev.op = "abandon" -> out' = <<>> /\ mode' = "idle" /\ UNCHANGED unfinished
    [] Ev.op = "rmnext" -> mode' = "rmwalk-r" /\ UNCHANGED <<out, unfinished>>
    [] Ev.op = "nearest" /\ Ev.b = 1 /\ Ev.ok ->
         /\ out' = <<>> /\ mode' = (IF unfinished THEN "walk?" ELSE "nwalk") /\ UNCHANGED unfinished
    [] Ev.op = "walk" -> UNCHANGED <<out, mode>> /\ unfinished' = (IF Dom = {} \/ Ev.nfail > 0 THEN unfinished ELSE FALSE)
    [] OTHER -> UNCHANGED <<out, mode, unfinished>>
TNext ==
  /\ l <= NT /\ l' = l + 1 /\ UNCHANGED <<bad, lastOp>>
  /\ IF Ev.op = "reset" THEN
        /\ tree' = Nil /\ ttid' = Ev.ttid /\ cur' = None /\ out' = <<>> /\ mode' = "idle" /\ unfinished' = FALSE
        /\ map' = EmptyMap /\ skipping' = FALSE /\ UNCHANGED <<nconf, ncmp>>
     ELSE IF skipping THEN UNCHANGED <<tree, ttid, cur, out, mode, unfinished, map, skipping, nconf, ncmp>>
     ELSE IF Ev.op = "ctor" THEN
                 \* constructor under allocation failure: a failed constructor leaves nothing allocated (C15)
                 IF Ev.live = 0 \/ "leak" \notin Owned THEN UNCHANGED <<tree, ttid, cur, out, mode, unfinished, map, skipping, nconf, ncmp>>
                 ELSE PrintT("REJECT " \o ToJson([l |-> l, why |-> {"leak"}, ev |-> Ev, exp |-> "constructor leaked"])) /\ skipping' = TRUE /\ UNCHANGED <<tree, ttid, cur, out, mode, unfinished, map, nconf, ncmp>>
            ELSE IF Ev.op \in {"crash", "timeout"} THEN
        /\ Reject({Ev.op} \cup (IF Ev.where = "nearest" THEN {"nearest"} ELSE IF Ev.where \in {"next", "walk"} THEN {"walk"} ELSE IF Ev.where = "rmnext" THEN {"rmloop"} ELSE {"result"}),
                  "no action admits this event")
        /\ skipping' = TRUE /\ UNCHANGED <<tree, ttid, cur, out, mode, unfinished, map, nconf, ncmp>>
     ELSE IF Ev.op = "free" THEN
        /\ UNCHANGED <<tree, ttid, cur, out, mode, unfinished, map, nconf, ncmp>>
        /\ IF Why \cap Owned = {} THEN UNCHANGED skipping ELSE Reject(Why, <<>>) /\ skipping' = TRUE
     ELSE IF Why \cap (Owned \cup {"result", "state", "enomem"}) = {} THEN
        /\ map' = (IF FailedCleanly THEN map ELSE NewMap)
        /\ tree' = (IF Ev.hs THEN Ev.shape ELSE Unknown) /\ ttid' = Ev.ttid /\ cur' = [tid |-> Ev.ctid, nx |-> Ev.cnx]
        /\ Ghost /\ UNCHANGED skipping
        /\ ncmp' = (IF Comparable THEN ncmp + 1 ELSE ncmp)
        /\ nconf' = (IF Comparable /\ Conforms THEN nconf + 1 ELSE nconf)
     ELSE /\ Reject(Why, [map |-> SortedKV(map), mode |-> mode, out |-> out])
          /\ IF Why \cap Owned = {} /\ Ev.hs /\ Ev.full /\ Ev.inj = 0
             THEN \* a deviation that belongs to another property: instead of giving up the segment, go on from the table as observed
                  \* (keys the harness cannot identify appear as -1), so that what this run owns is still judged
                  \* ... unless the observed table is not a map over keys that were put at all (a key nobody stored, a key twice):
                  \* then "the current set of keys" can only mean what the calls so far stored, and the ideal map goes on
                  /\ LET obs == {Ev.ino[i][1] : i \in 1..Len(Ev.ino)} IN
                     \* (a run that judges the nearest-key search always keeps the ideal map: its property speaks of the keys the calls stored)
                     map' = IF "nearest" \notin Owned /\ Cardinality(obs) = Len(Ev.ino) /\ \A k \in obs : k >= 1
                            THEN [k \in obs |-> Ev.ino[CHOOSE i \in 1..Len(Ev.ino) : Ev.ino[i][1] = k][2]]
                            ELSE IF FailedCleanly THEN map ELSE NewMap
                  /\ tree' = Ev.shape /\ ttid' = Ev.ttid /\ cur' = [tid |-> Ev.ctid, nx |-> Ev.cnx]
                  /\ Ghost /\ UNCHANGED <<skipping, nconf, ncmp>>
             ELSE skipping' = TRUE /\ UNCHANGED <<tree, ttid, cur, out, mode, unfinished, map, nconf, ncmp>>
  /\ (l = NT => PrintT("CONFORM " \o ToString(nconf') \o " " \o ToString(ncmp')))
Consumed == TLCGet("stats").diameter - 1 = NT
==========================================================================
