-------------------------- MODULE TokenBucketTrace --------------------------
(* Judges events recorded from the real qtokenbucket under a scripted clock (harness/tokbucket.c)     *)
(* against TokenBucket.tla.  Events: init {init,max,rate}, tick {n}, consume {n, ok, mt}, wait        *)
(* {n, w, mt}; mt is the code's level rounded to 1/1000 token; `near` says the code's double is inexact  *)
(* and within 1e-6 token of the comparison boundary (rounding in `elapsed * 0.001 * rate`): only then  *)
(* either outcome of the comparison is accepted, and counted.  A level that is exactly on the boundary *)
(* gets no tolerance.                                                                                  *)
EXTENDS Integers, Sequences, TLC, Json, IOUtils
VARIABLES l, mt, pend, maxT, rate, skipping, nnear
T == ndJsonDeserialize(IOEnv.TRACE)
NT == Len(T)
Ev == T[l]
Min(a, b) == IF a < b THEN a ELSE b
Refill(m, p) == IF m < maxT * 1000 THEN Min(m + p * rate, maxT * 1000) ELSE m
CeilDiv(a, b) == (a + b - 1) \div b
WaitOf(m, n) == IF m >= n * 1000 THEN 0 ELSE CeilDiv(1000 * (n - (m \div 1000)), rate)
TInit == l = 1 /\ mt = 0 /\ pend = 0 /\ maxT = 1 /\ rate = 1 /\ skipping = FALSE /\ nnear = 0 /\ TLCSet(7, 0)
Reject(why, exp) == PrintT("REJECT " \o ToJson([l |-> l, why |-> {why}, ev |-> Ev, exp |-> exp]))
TNext ==
  /\ l <= NT /\ l' = l + 1
  /\ IF Ev.op = "init" THEN mt' = Ev.init * 1000 /\ pend' = 0 /\ maxT' = Ev.max /\ rate' = Ev.rate /\ skipping' = FALSE /\ nnear' = nnear
     ELSE IF skipping THEN UNCHANGED <<mt, pend, maxT, rate, skipping, nnear>>
     ELSE IF Ev.op = "tick" THEN pend' = pend + Ev.n /\ UNCHANGED <<mt, maxT, rate, skipping, nnear>>
     ELSE IF Ev.op \in {"crash", "timeout"} THEN Reject("crash", "no action admits this event") /\ skipping' = TRUE /\ UNCHANGED <<mt, pend, maxT, rate, nnear>>
     ELSE LET m == Refill(mt, pend) IN
          IF Ev.op = "consume" THEN
               LET ok == m >= Ev.n * 1000
                   m2 == IF Ev.ok THEN m - Ev.n * 1000 ELSE m IN
               IF (Ev.ok = ok \/ Ev.near) /\ Ev.mt = m2
               THEN mt' = m2 /\ pend' = 0 /\ nnear' = nnear + (IF Ev.ok # ok THEN 1 ELSE 0) /\ UNCHANGED <<maxT, rate, skipping>>
               ELSE Reject("consume", [ok |-> ok, mt |-> IF ok THEN m - Ev.n * 1000 ELSE m]) /\ skipping' = TRUE /\ UNCHANGED <<mt, pend, maxT, rate, nnear>>
          ELSE \* wait
               LET w == WaitOf(m, Ev.n)
                   \* near a whole-token boundary the truncation may see one token less
                   wlow == WaitOf(m - 1, Ev.n) IN
               IF (Ev.w = w \/ (Ev.near /\ Ev.w = wlow)) /\ Ev.mt = m
               THEN mt' = m /\ pend' = 0 /\ nnear' = nnear + (IF Ev.w # w THEN 1 ELSE 0) /\ UNCHANGED <<maxT, rate, skipping>>
               ELSE Reject("wait", [w |-> w, mt |-> m]) /\ skipping' = TRUE /\ UNCHANGED <<mt, pend, maxT, rate, nnear>>
  /\ TLCSet(7, nnear')
Consumed == /\ TLCGet("stats").diameter - 1 = NT
            /\ PrintT("CONFORM " \o ToString(TLCGet(7)) \o " " \o ToString(NT))
=============================================================================
