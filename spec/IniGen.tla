------------------------------ MODULE IniGen ------------------------------
(* TLC generates every abstract INI document of up to MaxLines lines from a pool of line shapes.      *)
EXTENDS Integers, Sequences, TLC, Json
CONSTANT MaxLines
VARIABLE lines
P(k, txt) == [k |-> k, txt |-> txt]
E(name, parts) == [t |-> "entry", name |-> name, parts |-> parts]
Pool == { [t |-> "comment", name |-> "", parts |-> <<>>], [t |-> "blank", name |-> "", parts |-> <<>>],
          [t |-> "section", name |-> "sec", parts |-> <<>>], [t |-> "section", name |-> "", parts |-> <<>>],
          E("a", <<P("lit", "1")>>), E("a", <<P("lit", "two words")>>), E("b", <<P("var", "a"), P("lit", "/x")>>),
          E("c", <<P("lit", "p="), P("var", "sec.a"), P("env", "QV_HOME")>>), E("d", <<P("var", "nosuch")>>),
          E("e", <<P("env", "QV_UNSET"), P("lit", "#not a comment")>>) }
Init == lines = <<>>
Next == Len(lines) < MaxLines /\ \E x \in Pool : lines' = Append(lines, x)
Emit == PrintT("DOC " \o ToJson(lines))
===========================================================================
