----------------------------- MODULE StrTrace -----------------------------
(* Judges records produced by the real qstring routines (harness/strings.c) against StrRef (C19).   *)
(* Every record also says whether the canaries around the destination buffer survived (`guard`).     *)
EXTENDS StrRef, Json, IOUtils, TLCExt
VARIABLE l
T == ndJsonDeserialize(IOEnv.TRACE)
NT == Len(T)
Ev == T[l]
Ok == /\ Ev.fn \notin {"crash", "timeout"} /\ Ev.guard
      /\ CASE Ev.fn = "trim" -> Ev.out = Trim(Ev.s)
           [] Ev.fn = "trimhead" -> Ev.out = TrimHead(Ev.s)
           [] Ev.fn = "trimtail" -> Ev.out = TrimTail(Ev.s)
           [] Ev.fn = "unchar" -> Ev.ok = UncharOk(Ev.s, Ev.a, Ev.b) /\ Ev.out = Unchar(Ev.s, Ev.a, Ev.b)
           [] Ev.fn \in {"rep_tn", "rep_tr"} -> Ev.out = ReplaceTok(Ev.s, Ev.tok, Ev.word)
           [] Ev.fn \in {"rep_sn", "rep_sr"} -> Ev.out = ReplaceStr(Ev.s, Ev.tok, Ev.word)
           [] Ev.fn = "cpy" -> Ev.out = NCpy(Ev.s, Ev.a, Len(Ev.s))
           [] Ev.fn = "ncpy" -> Ev.out = NCpy(Ev.s, Ev.a, Ev.b)
           [] Ev.fn = "rev" -> Ev.out = Rev(Ev.s)
           [] Ev.fn = "upper" -> Ev.out = Upper(Ev.s)
           [] Ev.fn = "lower" -> Ev.out = Lower(Ev.s)
           [] Ev.fn = "tok" -> TokensOk(Ev.toks, Ev.s, Ev.tok) /\ Ev.stops = StopsOf(Ev.s, Ev.tok)
           [] Ev.fn = "tokenizer" -> TokensOk(Ev.toks, Ev.s, Ev.tok)
           [] Ev.fn = "gets" -> \* all lines of the text, in order
                LET RECURSIVE Lines(_) Lines(i) == IF i > Len(Ev.s) THEN <<>> ELSE LET g == GetsFrom(Ev.s, i, <<>>, Ev.a - 1) IN <<g[1]>> \o Lines(g[2])
                IN Ev.toks = Lines(1)
           [] Ev.fn = "between" -> LET r == Between(Ev.s, Ev.tok, Ev.word) IN Ev.ok = r[1] /\ Ev.out = r[2]
           [] Ev.fn = "test" -> Ev.ok = (\A i \in 1..Len(Ev.s) : \E j \in 1..Len(Ev.tok) : Ev.tok[j] = Ev.s[i])
           [] Ev.fn = "memdup" -> IF Ev.s = <<>> THEN ~Ev.ok ELSE Ev.ok /\ Ev.out = Ev.s
           [] Ev.fn = "catf" -> Ev.out = Ev.s \o Ev.tok
           [] Ev.fn = "dupf" -> Ev.ok /\ Ev.out = Ev.s \o Ev.tok
           [] Ev.fn = "ip4" -> Ip4Ok(Ev.ok, Ev.s)
           [] Ev.fn = "email" -> EmailOk(Ev.ok, Ev.s)
           [] Ev.fn = "comma" -> Ev.out = CommaNumber(Ev.neg, Ev.q, Ev.r)
           [] Ev.fn = "unique" -> Ev.ok /\ Len(Ev.out) = 32 /\ AllIn(Ev.out, LowerHex)
           [] OTHER -> FALSE
Init == l = 1
Next == /\ l <= NT /\ l' = l + 1
        /\ (Ok \/ PrintT("REJECT " \o ToJson([l |-> l, why |-> {IF Ev.fn \in {"crash", "timeout"} THEN Ev.fn ELSE "string"}, ev |-> Ev, exp |-> ""])))
Consumed == TLCGet("stats").diameter - 1 = NT
===========================================================================
