------------------------------ MODULE Codec ------------------------------
(* Reference definitions, over sequences of byte values, of the encodings of src/utilities/qencode.c *)
(* (C16): RFC 4648 Base64 with '=' padding, lowercase hex, URL (percent) encoding, and their          *)
(* decoders.  TLC first checks the definitions against themselves and the RFC vectors (ASSUMEs, and    *)
(* the Selfcheck model over all short strings); records produced by the real functions are then        *)
(* judged by CodecTrace.                                                                              *)
EXTENDS Integers, Sequences, TLC, SequencesExt, Functions
Alpha == <<65,66,67,68,69,70,71,72,73,74,75,76,77,78,79,80,81,82,83,84,85,86,87,88,89,90,
           97,98,99,100,101,102,103,104,105,106,107,108,109,110,111,112,113,114,115,116,117,118,119,120,121,122,
           48,49,50,51,52,53,54,55,56,57,43,47>>
Ch(i) == Alpha[i + 1]
Pad == 61
Block(a, b, c, n) ==   \* n = number of real bytes in this block (1..3)
  <<Ch(a \div 4), Ch((a % 4) * 16 + b \div 16),
    IF n >= 2 THEN Ch((b % 16) * 4 + c \div 64) ELSE Pad,
    IF n >= 3 THEN Ch(c % 64) ELSE Pad>>
B64Enc(x) == LET n == Len(x)  nb == (n + 2) \div 3
                 Get(i) == IF i <= n THEN x[i] ELSE 0
             IN FlattenSeq([j \in 1..nb |-> Block(Get(3*j-2), Get(3*j-1), Get(3*j), IF 3*j <= n THEN 3 ELSE n - 3*(j-1))])
Val(c) == IF c >= 65 /\ c <= 90 THEN c - 65 ELSE IF c >= 97 /\ c <= 122 THEN c - 71
          ELSE IF c >= 48 /\ c <= 57 THEN c + 4 ELSE IF c = 43 THEN 62 ELSE IF c = 47 THEN 63 ELSE 64
\* decoder: characters outside the alphabet (padding included) are skipped
B64Dec(s) == LET v == SelectSeq([i \in 1..Len(s) |-> Val(s[i])], LAMBDA q : q < 64)
                 m == Len(v)
                 nbytes == (m * 6) \div 8
                 Byte(i) == LET bit == (i - 1) * 8  q == bit \div 6 + 1  off == bit % 6 IN
                            IF off = 0 THEN v[q] * 4 + v[q+1] \div 16
                            ELSE IF off = 2 THEN (v[q] % 16) * 16 + v[q+1] \div 4
                            ELSE (v[q] % 4) * 64 + v[q+1]
             IN [i \in 1..nbytes |-> Byte(i)]
Hex(d) == IF d < 10 THEN 48 + d ELSE 87 + d                       \* lowercase digits
HexEnc(x) == FlattenSeq([i \in 1..Len(x) |-> <<Hex(x[i] \div 16), Hex(x[i] % 16)>>])
IsHex(c) == (c >= 48 /\ c <= 57) \/ (c >= 65 /\ c <= 70) \/ (c >= 97 /\ c <= 102)
HexVal(c) == IF c <= 57 THEN c - 48 ELSE IF c <= 70 THEN c - 55 ELSE c - 87
\* decoder for well-formed input (even number of hex digits, either case)
HexDec(s) == [i \in 1..(Len(s) \div 2) |-> HexVal(s[2*i - 1]) * 16 + HexVal(s[2*i])]
WellFormedHex(s) == Len(s) % 2 = 0 /\ \A i \in 1..Len(s) : IsHex(s[i])
\* ---- URL encoding ----
\* bytes that may never appear literally: space, controls, >= 0x7F and % + & = ? # " < >
Unsafe(b) == b <= 32 \/ b >= 127 \/ b \in {37, 43, 38, 61, 63, 35, 34, 60, 62}
\* one left-to-right pass over an encoded string: mode 0 literal, 1 expecting the first, 2 the second hex digit
UrlScan(enc, plus) ==
  FoldLeft(LAMBDA st, c :
             IF ~st.ok THEN st
             ELSE IF st.mode = 1 THEN (IF IsHex(c) THEN [st EXCEPT !.mode = 2, !.hi = HexVal(c)] ELSE [st EXCEPT !.ok = FALSE])
             ELSE IF st.mode = 2 THEN (IF IsHex(c) THEN [st EXCEPT !.mode = 0, !.out = Append(@, st.hi * 16 + HexVal(c))] ELSE [st EXCEPT !.ok = FALSE])
             ELSE IF c = 37 THEN [st EXCEPT !.mode = 1]
             ELSE IF plus /\ c = 43 THEN [st EXCEPT !.out = Append(@, 32)]
             ELSE [st EXCEPT !.out = Append(@, c), !.lits = @ \cup {c}],
           [mode |-> 0, hi |-> 0, out |-> <<>>, ok |-> TRUE, lits |-> {}], enc)
\* enc is a valid URL encoding of inp: every byte is either a safe literal or %hh, nothing else
UrlOk(enc, inp) == LET s == UrlScan(enc, FALSE) IN s.ok /\ s.mode = 0 /\ s.out = inp /\ \A c \in s.lits : ~Unsafe(c)
\* decoder for well-formed input: %hh in either case, '+' is a space
WellFormedUrl(s) == LET r == UrlScan(s, TRUE) IN r.ok /\ r.mode = 0
UrlDec(s) == UrlScan(s, TRUE).out
\* ---- the definitions against the RFC 4648 section 10 vectors ----
S(str) == str   \* byte sequences are written out as numbers below
ASSUME B64Enc(<<>>) = <<>>
ASSUME B64Enc(<<102>>) = <<90,103,61,61>>                                   \* "f"      -> "Zg=="
ASSUME B64Enc(<<102,111>>) = <<90,109,56,61>>                               \* "fo"     -> "Zm8="
ASSUME B64Enc(<<102,111,111>>) = <<90,109,57,118>>                          \* "foo"    -> "Zm9v"
ASSUME B64Enc(<<102,111,111,98>>) = <<90,109,57,118,89,103,61,61>>          \* "foob"   -> "Zm9vYg=="
ASSUME B64Enc(<<102,111,111,98,97>>) = <<90,109,57,118,89,109,69,61>>       \* "fooba"  -> "Zm9vYmE="
ASSUME B64Enc(<<102,111,111,98,97,114>>) = <<90,109,57,118,89,109,70,121>>  \* "foobar" -> "Zm9vYmFy"
ASSUME B64Dec(<<90,109,57,118,89,103,61,61>>) = <<102,111,111,98>>
ASSUME HexEnc(<<0, 171, 255>>) = <<48,48,97,98,102,102>>                    \* 00abff
ASSUME HexDec(<<48,48,65,98,70,102>>) = <<0, 171, 255>>                     \* 00AbFf
ASSUME UrlOk(<<97,37,50,48,98>>, <<97,32,98>>)                              \* a%20b encodes "a b"
ASSUME ~UrlOk(<<97,32,98>>, <<97,32,98>>)                                   \* a literal space is not allowed
ASSUME UrlDec(<<97,43,37,50,70,98>>) = <<97,32,47,98>>                      \* a+%2Fb -> "a /b"
==========================================================================
