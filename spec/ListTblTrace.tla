--------------------------- MODULE ListTblTrace ---------------------------
(* Judges events recorded from the real qlisttbl (harness/replay_listtbl.c).                      *)
EXTENDS ListTbl, IOUtils, TLCExt, SequencesExt
CONSTANT Owned
VARIABLES l, skipping
T == ndJsonDeserialize(IOEnv.TRACE)
NT == Len(T)
Ev == T[l]
TInit == ents = <<>> /\ lastOp = [op |-> "init", k |-> 0, v |-> 0] /\ l = 1 /\ skipping = FALSE
\* "afterload": the harness put a fresh entry into the table it had just loaded a file into (whether or not the load succeeded, with no
\* allocation failing any more) and reports whether it landed at the end the table inserts at; nothing changes in the table under test
Expected == IF Ev.op = "afterload" THEN Res(ents, TRUE, 0, 0, <<>>) ELSE Apply(ents, Ev.op, Ev.k, Ev.v)
Seconds(s) == [i \in 1..Len(s) |-> s[i][2]]
ResultOk(r) ==
      /\ (Ev.op \in {"put", "get", "getmulti", "saveload", "debug", "afterload"} => Ev.ok = r.ok)
      /\ (Ev.op \in {"get", "getmulti"} /\ ~r.ok => Ev.err = r.err)
      /\ (Ev.op \in {"get", "getmulti", "remove", "rmwalk", "walk", "walkname", "size", "saveload"} => Ev.n = r.n)
      /\ (Ev.op \in {"walk", "walkname", "saveload"} => Ev.out = r.out)
      /\ (Ev.op = "getmulti" => Seconds(Ev.out) = Seconds(r.out))          \* getmulti returns values only
StateOk(r) == Ev.ents = r.ents /\ Ev.rents = Rev(r.ents) /\ Ev.num = Len(r.ents)
FailedCleanly == /\ Ev.inj > 0 /\ Ev.nfail > 0 /\ Ev.op \in Allocating /\ ~Ev.ok
                 /\ Ev.ents = ents /\ Ev.rents = Rev(ents) /\ Ev.num = Len(ents)
Why == LET r == Expected IN
       IF Ev.op = "free" THEN (IF Ev.live # 0 THEN {"leak"} ELSE {}) \cup (IF ~Ev.copies_ok THEN {"copy"} ELSE {})
       ELSE (IF FailedCleanly \/ (ResultOk(r) /\ StateOk(r)) THEN {}
             ELSE IF Ev.inj > 0 THEN {"enomem"} ELSE IF ResultOk(r) THEN {"state"} ELSE {"result"})
            \cup (IF Ev.lkd # 0 THEN {"lock"} ELSE {}) \cup (IF Ev.ovl # 0 THEN {"overlap"} ELSE {})
            \cup (IF Ev.bf # 0 THEN {"badfree"} ELSE {}) \cup (IF Ev.leak # 0 THEN {"leak"} ELSE {})
Reject(why, exp) == PrintT("REJECT " \o ToJson([l |-> l, why |-> why, ev |-> Ev, exp |-> exp]))
TNext == /\ l <= NT /\ l' = l + 1 /\ lastOp' = lastOp
         /\ IF Ev.op = "reset" THEN ents' = <<>> /\ skipping' = FALSE
            ELSE IF skipping THEN UNCHANGED <<ents, skipping>>
            ELSE IF Ev.op = "ctor" THEN
                 \* constructor under allocation failure: a failed constructor leaves nothing allocated (C15)
                 IF Ev.live = 0 \/ "leak" \notin Owned THEN UNCHANGED <<ents, skipping>>
                 ELSE PrintT("REJECT " \o ToJson([l |-> l, why |-> {"leak"}, ev |-> Ev, exp |-> "constructor leaked"])) /\ skipping' = TRUE /\ UNCHANGED <<ents>>
            ELSE IF Ev.op \in {"crash", "timeout"} THEN
                 Reject({Ev.op, "result"}, "no action admits this event") /\ skipping' = TRUE /\ UNCHANGED ents
            ELSE IF Why \cap (Owned \cup {"result", "state", "enomem"}) = {} THEN
                 /\ UNCHANGED skipping
                 /\ IF Ev.op = "free" \/ (FailedCleanly /\ ~(ResultOk(Expected) /\ StateOk(Expected)))
                    THEN UNCHANGED ents ELSE ents' = Expected.ents
            ELSE Reject(Why, IF Ev.op = "free" THEN <<>> ELSE Expected) /\ skipping' = TRUE /\ UNCHANGED ents
Consumed == TLCGet("stats").diameter - 1 = NT
===========================================================================
