------------------------- MODULE LockBalanceTrace -------------------------
(* The fifth lock user of qLibc, the logger (qlog with QLOG_OPT_THREADSAFE), as a lock-balance       *)
(* automaton (C14): every public call - write, writef, duplicate, flush, on success, on a failed      *)
(* formatting allocation and across a log rotation - returns with the lock at the depth it had on      *)
(* entry.  Events come from harness/qlogdrv.c; `lkd` is the change of (successful lock acquisitions    *)
(* minus releases) across the call, counted by the wrapped pthread functions.  The log's content is    *)
(* checked too: the file holds exactly the lines whose write reported success, in order.               *)
EXTENDS Integers, Sequences, TLC, Json, IOUtils, TLCExt
VARIABLES l, lines
T == ndJsonDeserialize(IOEnv.TRACE)
NT == Len(T)
Ev == T[l]
Init == l = 1 /\ lines = <<>>
Ok == CASE Ev.op = "reset" -> TRUE
        [] Ev.op \in {"write", "writef"} -> Ev.lkd = 0 /\ (Ev.inj = 0 => Ev.ok)
        [] Ev.op \in {"duplicate", "flush"} -> Ev.lkd = 0
        [] Ev.op = "free" -> Ev.lkd = 0 /\ Ev.content = lines /\ Ev.live = 0
        [] OTHER -> FALSE
Next == /\ l <= NT /\ l' = l + 1
        /\ lines' = (IF Ev.op = "reset" THEN <<>> ELSE IF Ev.op \in {"write", "writef"} /\ Ev.ok THEN Append(lines, Ev.v) ELSE lines)
        /\ (Ok \/ PrintT("REJECT " \o ToJson([l |-> l, why |-> {IF Ev.op \in {"crash", "timeout"} THEN Ev.op ELSE "lock"}, ev |-> Ev, exp |-> lines])))
Consumed == TLCGet("stats").diameter - 1 = NT
===========================================================================
