------------------------------- MODULE Conc -------------------------------
(* Threads running small client programs against one thread-safe container (C13).                    *)
(* Each API call is split into the blocks the code has:                                              *)
(*   Invoke  - call entry and everything executed before the lock is taken                           *)
(*   CS      - lock acquisition, the critical section, lock release (one atomic step: the lock is     *)
(*             never held across a scheduling point)                                                 *)
(*   Return  - everything executed after the lock is released, and the return                        *)
(* PreReads = TRUE models the code as it was pinned for "seq" containers: addlast reads the element   *)
(* count in Invoke and uses it in CS (qvector_addlast), and toarray's size result is read in Return   *)
(* (qlist_toarray).  With PreReads = FALSE every access is inside CS (the repaired code).             *)
(* TLC explores every interleaving of the blocks; at termination the recorded history must be         *)
(* linearizable (search over linear extensions that respect real time).  The schedule of every        *)
(* terminal state is exported (Schedules) and replayed on the real library.                           *)
EXTENDS ConcSpec, TLC, Json, SequencesExt
CONSTANTS Kind, Prog, PreReads
VARIABLES st, pc, opi, loc, hist, clock, sched
Threads == 1..Len(Prog)
vars == <<st, pc, opi, loc, hist, clock, sched>>
Init == /\ st = InitState(Kind) /\ pc = [t \in Threads |-> "idle"] /\ opi = [t \in Threads |-> 1]
        /\ loc = [t \in Threads |-> 0] /\ hist = {} /\ clock = 0 /\ sched = <<>>
CurOp(t) == Prog[t][opi[t]]
Invoke(t) == /\ pc[t] = "idle" /\ opi[t] <= Len(Prog[t])
             /\ loc' = [loc EXCEPT ![t] = IF PreReads /\ Kind = "seq" /\ CurOp(t).op = "addlast" THEN Len(st) ELSE -1]
             /\ hist' = hist \cup {[t |-> t, i |-> opi[t], op |-> CurOp(t), inv |-> clock, res |-> -1, out |-> -9, outs |-> <<>>]}
             /\ clock' = clock + 1 /\ pc' = [pc EXCEPT ![t] = "wait"] /\ sched' = Append(sched, t)
             /\ UNCHANGED <<st, opi>>
CS(t) == /\ pc[t] = "wait"
         /\ LET op == CurOp(t)
                r == IF PreReads /\ Kind = "seq" /\ op.op = "addlast" THEN
                        \* insertion at the index read before the lock was taken
                        LET idx == loc[t]  n == Len(st) IN
                        IF idx = n THEN <<Append(st, op.a), 1, <<>>>>
                        ELSE IF idx < n THEN <<InsertAt(st, idx + 1, op.a), 1, <<>>>>
                        ELSE <<st, 0, <<>>>>                                  \* index beyond the end: refused
                     ELSE SApply(Kind, st, op)
            IN /\ st' = r[1]
               /\ hist' = {IF h.t = t /\ h.i = opi[t] THEN [h EXCEPT !.out = r[2], !.outs = r[3]] ELSE h : h \in hist}
         /\ pc' = [pc EXCEPT ![t] = "ret"] /\ sched' = Append(sched, t)
         /\ UNCHANGED <<opi, loc, clock>>
Return(t) == /\ pc[t] = "ret"
             /\ hist' = {IF h.t = t /\ h.i = opi[t]
                         THEN [h EXCEPT !.res = clock,
                                        !.out = IF PreReads /\ Kind = "seq" /\ h.op.op = "toarray" THEN Len(st) ELSE @]
                         ELSE h : h \in hist}
             /\ clock' = clock + 1 /\ opi' = [opi EXCEPT ![t] = @ + 1] /\ pc' = [pc EXCEPT ![t] = "idle"]
             /\ sched' = Append(sched, t) /\ UNCHANGED <<st, loc>>
Next == \E t \in Threads : Invoke(t) \/ CS(t) \/ Return(t)
Spec == Init /\ [][Next]_vars
Done == \A t \in Threads : pc[t] = "idle" /\ opi[t] > Len(Prog[t])
\* linearizability of a complete history: some linear extension of the real-time order explains every result and the final state
RECURSIVE Lin(_, _)
Lin(s, rest) ==
  IF rest = {} THEN s = st
  ELSE \E h \in rest :
         /\ \A g \in rest : ~(g.res < h.inv)
         /\ LET r == SApply(Kind, s, h.op) IN r[2] = h.out /\ r[3] = h.outs /\ Lin(r[1], rest \ {h})
Linearizable == Done => Lin(InitState(Kind), hist)
\* export of the schedule of every terminal state (one JSON line each)
Schedules == Done => PrintT("SCHED " \o ToJson(sched))
===========================================================================
