---- MODULE MC_HashArr ----
EXTENDS HashArrImpl
HomeA == <<0, 0, 1>>
HomeB == <<0, 0, 0>>
HomeC == <<0, 1, 1, 2>>
HomeD == <<0, 0, 1, 1>>
HomeE == <<1, 1, 1, 3>>
HomeF == <<0, 1, 2>>
Home2 == <<0, 0, 1>>      \* for N = 2
====
