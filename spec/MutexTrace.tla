---------------------------- MODULE MutexTrace ----------------------------
(* Binds Mutex.tla to the code: every trylock attempt, acquisition and release made by            *)
(* Q_MUTEX_ENTER / Q_MUTEX_LEAVE in a scenario that forces the spin and "force unlock" path       *)
(* (harness/conc.c, mode mutex) must be a step of the specification, with the library's shadow     *)
(* counter and the real lock depth equal to the model's before every step; the invariants of       *)
(* Mutex.tla are evaluated along the way.                                                          *)
EXTENDS Mutex, Json, IOUtils, TLCExt, Sequences
VARIABLE l
T == ndJsonDeserialize(IOEnv.TRACE)
NT == Len(T)
Ev == T[l]
TInit == Init /\ l = 1
\* Decisive is the real mutex: who holds it and how deep.  The library's shadow counter (Ev.cnt) is recorded but not compared:
\* it has no effect on behaviour, so a change to how it is clamped must not raise an alarm.
Pre == depth = Ev.depth
Step == CASE Ev.ev = "reset" -> /\ holder' = 0 /\ depth' = Ev.depth /\ cnt' = Ev.cnt /\ owner' = 0
                                /\ pc' = [t \in Threads |-> "idle"] /\ spin' = [t \in Threads |-> 0] /\ want' = [t \in Threads |-> 0]
          [] Ev.ev = "enter" -> Enter(Ev.t) /\ Pre
          \* an acquisition is logged after the mutex was taken but before the shadow counter is incremented
          [] Ev.ev = "try" -> Try(Ev.t) /\ (Ev.ok = (pc'[Ev.t] = "cs")) /\ (IF Ev.ok THEN depth' = Ev.depth ELSE depth = Ev.depth)
          [] Ev.ev = "force" -> Force(Ev.t) /\ depth = Ev.depth
          [] Ev.ev = "leave" -> Leave(Ev.t) /\ depth' = Ev.depth
          [] Ev.ev = "end" -> UNCHANGED vars /\ Ev.ok /\ depth = 0 /\ depth = Ev.depth /\ \A t \in Threads : pc[t] = "idle"
\* deterministic replay: exactly one step per event; if no step of the specification matches, the behaviour ends there
TNext == l <= NT /\ l' = l + 1 /\ Step
\* the whole trace must be consumed; otherwise report the first event no step of Mutex.tla explains
Consumed == LET d == TLCGet("stats").diameter IN
            IF d - 1 = NT THEN TRUE
            ELSE PrintT("REJECT " \o ToJson([l |-> d, why |-> {"mutex"}, ev |-> T[d], exp |-> "no step of Mutex.tla matches this event"])) /\ FALSE
===========================================================================
