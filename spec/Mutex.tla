---- MODULE Mutex ----
\* Q_MUTEX_ENTER / Q_MUTEX_LEAVE as written in qinternal.h, over a recursive pthread mutex.
EXTENDS Integers, TLC
CONSTANTS Threads, MaxSpin, MaxDepth, Recursive
VARIABLES holder, depth,        \* the pthread mutex: owner (0 = free) and recursion depth
          cnt, owner,           \* the library's shadow fields qmutex->count / ->owner
          pc, spin, want        \* per thread: program counter, failed trylocks so far, nesting still wanted
vars == <<holder, depth, cnt, owner, pc, spin, want>>
Init == /\ holder = 0 /\ depth = 0 /\ cnt = 0 /\ owner = 0
        /\ pc = [t \in Threads |-> "idle"] /\ spin = [t \in Threads |-> 0] /\ want = [t \in Threads |-> 0]
\* pthread_mutex_trylock on a recursive mutex
\* `if ((count--) < 0) count = 0;` : the test looks at the value before the decrement, so the counter can reach -1
Dec(c) == IF c < 0 THEN 0 ELSE c - 1
TryLockOK(t) == holder = 0 \/ (holder = t /\ Recursive)
Enter(t) == /\ pc[t] \in {"idle", "cs"} /\ (pc[t] = "cs" => want[t] < MaxDepth)
            /\ pc' = [pc EXCEPT ![t] = IF pc[t] = "cs" THEN "enter2" ELSE "enter"] /\ spin' = [spin EXCEPT ![t] = 0]
            /\ UNCHANGED <<holder, depth, cnt, owner, want>>
Try(t) == /\ pc[t] \in {"enter", "enter2"}
          /\ IF TryLockOK(t)
             THEN /\ holder' = t /\ depth' = depth + 1 /\ cnt' = cnt + 1 /\ owner' = t
                  /\ pc' = [pc EXCEPT ![t] = "cs"] /\ want' = [want EXCEPT ![t] = @ + 1] /\ UNCHANGED spin
             ELSE IF spin[t] < MaxSpin
             THEN spin' = [spin EXCEPT ![t] = @ + 1] /\ UNCHANGED <<holder, depth, cnt, owner, pc, want>>
             ELSE \* the last failed attempt of a spin round: next comes the "force to unlock"
                  /\ pc' = [pc EXCEPT ![t] = IF pc[t] = "enter" THEN "force" ELSE "force2"]
                  /\ UNCHANGED <<holder, depth, cnt, owner, spin, want>>
\* "force to unlock": Q_MUTEX_LEAVE by a thread that does not hold the mutex.  pthread_mutex_unlock fails with EPERM on a
\* recursive mutex (nothing happens to it); only the shadow counter is decremented.  A separate step: other threads can run
\* between the last failed trylock and this.
Force(t) == /\ pc[t] \in {"force", "force2"}
            /\ cnt' = Dec(cnt) /\ spin' = [spin EXCEPT ![t] = 0]
            /\ pc' = [pc EXCEPT ![t] = IF pc[t] = "force" THEN "enter" ELSE "enter2"]
            /\ UNCHANGED <<holder, depth, owner, want>>
Leave(t) == /\ pc[t] = "cs" /\ holder = t
            /\ cnt' = Dec(cnt)
            /\ depth' = depth - 1 /\ holder' = IF depth = 1 THEN 0 ELSE t
            /\ want' = [want EXCEPT ![t] = @ - 1]
            /\ pc' = [pc EXCEPT ![t] = IF want[t] = 1 THEN "idle" ELSE "cs"]
            /\ UNCHANGED <<owner, spin>>
Next == \E t \in Threads : Enter(t) \/ Try(t) \/ Force(t) \/ Leave(t)
Spec == Init /\ [][Next]_vars
InCS(t) == pc[t] \in {"cs", "enter2", "force2"}
MutualExclusion == \A a, b \in Threads : InCS(a) /\ InCS(b) => a = b
DepthMatches == \A t \in Threads : InCS(t) => holder = t /\ depth = want[t]
ShadowExact == cnt = depth                  \* NOT an invariant: the force-unlock path desynchronises the shadow counter
====
