------------------------------ MODULE HashRef ------------------------------
(* Reference definitions of the non-cryptographic hash functions of src/utilities/qhash.c (C18):   *)
(* MurmurHash3 x86_32 and x64_128 (seed 0) and FNV-1 32/64, over sequences of byte values.          *)
(* TLC's integers are 32-bit, so machine words are little-endian sequences of 8-bit limbs (a 32-bit  *)
(* word has 4, a 64-bit word 8): products of two limbs and their column sums stay far below 2^31.    *)
(* Iteration over the input uses SequencesExt!FoldLeft (evaluated eagerly sh8 a Java override).       *)
EXTENDS Integers, Sequences, Bitwise, TLC, SequencesExt
Pow2(n) == 2 ^ n
Zero(n) == [i \in 1..n |-> 0]
\* carry propagation, result truncated to Len(raw) limbs (arithmetic modulo 2^(8n))
Norm(raw) == FoldLeft(LAMBDA acc, x : LET v == x + acc[2] IN <<Append(acc[1], v % 256), v \div 256>>, <<<<>>, 0>>, raw)[1]
AddW(a, b) == Norm([i \in 1..Len(a) |-> a[i] + b[i]])
ColSum(a, b, k) == FoldLeft(LAMBDA s, i : s + a[i] * b[k - i + 1], 0, [i \in 1..k |-> i])
MulW(a, b) == Norm([k \in 1..Len(a) |-> ColSum(a, b, k)])
XorW(a, b) == [i \in 1..Len(a) |-> a[i] ^^ b[i]]
RotlW(a, r) == LET n == Len(a)  sh8 == r \div 8  s == r % 8
                   b == [i \in 1..n |-> a[((((i - 1 - sh8) % n) + n) % n) + 1]]
                   prev(i) == IF i = 1 THEN n ELSE i - 1
               IN IF s = 0 THEN b ELSE [i \in 1..n |-> ((b[i] * Pow2(s)) % 256) + (b[prev(i)] \div Pow2(8 - s))]
ShrW(a, r) == LET n == Len(a)  sh8 == r \div 8  s == r % 8
                  g(i) == IF i + sh8 <= n THEN a[i + sh8] ELSE 0
              IN [i \in 1..n |-> (g(i) \div Pow2(s)) + ((g(i + 1) % Pow2(s)) * Pow2(8 - s))]
OfNat(x, n) == [i \in 1..n |-> IF i <= 4 THEN (x \div Pow2(8 * (i - 1))) % 256 ELSE 0]          \* x < 2^31, used for lengths
\* constants (little-endian limbs)
C1_32 == <<81, 45, 158, 204>>
C2_32 == <<147, 53, 135, 27>>
N32 == <<100, 107, 84, 230>>
F1_32 == <<107, 202, 235, 133>>
F2_32 == <<53, 174, 178, 194>>
Five32 == <<5, 0, 0, 0>>
C1_64 == <<213, 83, 66, 17, 145, 123, 195, 135>>
C2_64 == <<127, 147, 69, 39, 67, 173, 245, 76>>
N1_64 == <<41, 231, 220, 82, 0, 0, 0, 0>>
N2_64 == <<181, 90, 73, 56, 0, 0, 0, 0>>
Five64 == <<5, 0, 0, 0, 0, 0, 0, 0>>
F1_64 == <<205, 140, 85, 237, 215, 175, 81, 255>>
F2_64 == <<83, 236, 133, 26, 254, 185, 206, 196>>
FnvBasis32 == <<197, 157, 28, 129>>
FnvPrime32 == <<147, 1, 0, 1>>
FnvBasis64 == <<37, 35, 34, 132, 228, 156, 242, 203>>
FnvPrime64 == <<179, 1, 0, 0, 0, 1, 0, 0>>
\* ---- MurmurHash3 x86_32, seed 0 ----
Mix32(k) == MulW(RotlW(MulW(k, C1_32), 15), C2_32)
Take(bs, from, cnt, n) == [i \in 1..n |-> IF i <= cnt THEN bs[from + i - 1] ELSE 0]      \* cnt bytes from position `from`, zero-extended to n limbs
Murmur32(bs) ==
  LET n == Len(bs)  nb == n \div 4  r == n % 4
      body == FoldLeft(LAMBDA h, j : AddW(MulW(RotlW(XorW(h, Mix32(Take(bs, 4 * (j - 1) + 1, 4, 4))), 13), Five32), N32),
                       Zero(4), [j \in 1..nb |-> j])
      h1 == IF r = 0 THEN body ELSE XorW(body, Mix32(Take(bs, 4 * nb + 1, r, 4)))
      h2 == XorW(h1, OfNat(n, 4))
      f1 == XorW(h2, ShrW(h2, 16))
      f2 == MulW(f1, F1_32)
      f3 == XorW(f2, ShrW(f2, 13))
      f4 == MulW(f3, F2_32)
  IN XorW(f4, ShrW(f4, 16))
\* ---- MurmurHash3 x64_128, seed 0 ----
MixK1(k) == MulW(RotlW(MulW(k, C1_64), 31), C2_64)
MixK2(k) == MulW(RotlW(MulW(k, C2_64), 33), C1_64)
FMix64(h) == LET a == XorW(h, ShrW(h, 33))  b == MulW(a, F1_64)  c == XorW(b, ShrW(b, 33))  d == MulW(c, F2_64) IN XorW(d, ShrW(d, 33))
Murmur128(bs) ==
  LET n == Len(bs)  nb == n \div 16  r == n % 16  t == 16 * nb
      body == FoldLeft(LAMBDA hh, j :
                 LET k1 == Take(bs, 16 * (j - 1) + 1, 8, 8)  k2 == Take(bs, 16 * (j - 1) + 9, 8, 8)
                     h1a == XorW(hh[1], MixK1(k1))
                     h1b == AddW(MulW(AddW(RotlW(h1a, 27), hh[2]), Five64), N1_64)
                     h2a == XorW(hh[2], MixK2(k2))
                     h2b == AddW(MulW(AddW(RotlW(h2a, 31), h1b), Five64), N2_64)
                 IN <<h1b, h2b>>,
               <<Zero(8), Zero(8)>>, [j \in 1..nb |-> j])
      h2t == IF r > 8 THEN XorW(body[2], MixK2(Take(bs, t + 9, r - 8, 8))) ELSE body[2]
      h1t == IF r > 0 THEN XorW(body[1], MixK1(Take(bs, t + 1, IF r > 8 THEN 8 ELSE r, 8))) ELSE body[1]
      a1 == XorW(h1t, OfNat(n, 8))  a2 == XorW(h2t, OfNat(n, 8))
      b1 == AddW(a1, a2)  b2 == AddW(a2, b1)
      c1 == FMix64(b1)  c2 == FMix64(b2)
      d1 == AddW(c1, c2)  d2 == AddW(c2, d1)
  IN d1 \o d2                                  \* 16 bytes: h1 then h2, little-endian
\* ---- FNV-1 (multiply, then xor) ----
Fnv(bs, basis, prime) == FoldLeft(LAMBDA h, x : LET m == MulW(h, prime) IN [m EXCEPT ![1] = m[1] ^^ x], basis, bs)
Fnv32(bs) == Fnv(bs, FnvBasis32, FnvPrime32)
Fnv64(bs) == Fnv(bs, FnvBasis64, FnvPrime64)
\* ---- published vectors ----
ASSUME Murmur32(<<97, 98, 99>>) = <<250, 147, 221, 179>>                       \* murmur3_32("abc") = 0xb3dd93fa
ASSUME Murmur128(<<104, 101, 108, 108, 111>>) = <<2, 155, 189, 65, 179, 167, 216, 203, 25, 29, 174, 72, 106, 144, 30, 91>>
                                                                               \* x64_128("hello") = cbd8a7b341bd9b02 5b1e906a48ae1d19
ASSUME Fnv32(<<97>>) = <<126, 93, 12, 5>>                                      \* FNV-1 32 "a" = 0x050c5d7e
ASSUME Fnv32(<<102, 111, 111, 98, 97, 114>>) = <<98, 178, 240, 49>>            \* FNV-1 32 "foobar" = 0x31f0b262
ASSUME Fnv64(<<97>>) = <<190, 183, 1, 134, 76, 189, 99, 175>>                  \* FNV-1 64 "a" = 0xaf63bd4c8601b7be
ASSUME Fnv64(<<102, 111, 111, 98, 97, 114>>) = <<194, 169, 221, 164, 101, 135, 13, 52>>   \* FNV-1 64 "foobar" = 0x340d8765a4dda9c2
=============================================================================
