------------------------------ MODULE StrRef ------------------------------
(* Reference definitions of the string utilities of src/utilities/qstring.c over sequences of byte  *)
(* values (C19).  Strings never contain 0.                                                            *)
EXTENDS Integers, Sequences, TLC, SequencesExt
Blank(c) == c \in {32, 9, 13, 10}
RECURSIVE TrimHead(_)
TrimHead(s) == IF s # <<>> /\ Blank(Head(s)) THEN TrimHead(Tail(s)) ELSE s
RECURSIVE TrimTail(_)
TrimTail(s) == IF s # <<>> /\ Blank(s[Len(s)]) THEN TrimTail(SubSeq(s, 1, Len(s) - 1)) ELSE s
Trim(s) == TrimTail(TrimHead(s))
\* qstrunchar: strips the pair only if both ends match
UncharOk(s, h, t) == Len(s) >= 2 /\ s[1] = h /\ s[Len(s)] = t
Unchar(s, h, t) == IF UncharOk(s, h, t) THEN SubSeq(s, 2, Len(s) - 1) ELSE s
\* token mode: every character that occurs in toks is replaced by word
ReplaceTok(s, toks, word) == FlattenSeq([i \in 1..Len(s) |-> IF \E j \in 1..Len(toks) : toks[j] = s[i] THEN word ELSE <<s[i]>>])
\* string mode: every leftmost non-overlapping occurrence of tok (non-empty) is replaced by word
MatchAt(s, i, tok) == i + Len(tok) - 1 <= Len(s) /\ SubSeq(s, i, i + Len(tok) - 1) = tok
ReplaceStr(s, tok, word) ==
  FoldLeft(LAMBDA st, i : IF st[2] > 0 THEN <<st[1], st[2] - 1>>
                          ELSE IF MatchAt(s, i, tok) THEN <<st[1] \o word, Len(tok) - 1>>
                          ELSE <<Append(st[1], s[i]), 0>>,
           <<<<>>, 0>>, [i \in 1..Len(s) |-> i])[1]
\* bounded copy: at most size-1 bytes, always terminated
NCpy(src, size, nbytes) == SubSeq(src, 1, IF nbytes >= size THEN size - 1 ELSE nbytes)
Rev(s) == [i \in 1..Len(s) |-> s[Len(s) + 1 - i]]
Upper(s) == [i \in 1..Len(s) |-> IF s[i] >= 97 /\ s[i] <= 122 THEN s[i] - 32 ELSE s[i]]
Lower(s) == [i \in 1..Len(s) |-> IF s[i] >= 65 /\ s[i] <= 90 THEN s[i] + 32 ELSE s[i]]
\* fields separated by any of the delimiter characters, empty fields included
Fields(s, dels) ==
  LET isdel(c) == \E j \in 1..Len(dels) : dels[j] = c
      r == FoldLeft(LAMBDA st, c : IF isdel(c) THEN <<Append(st[1], st[2]), <<>>>> ELSE <<st[1], Append(st[2], c)>>, <<<<>>, <<>>>>, s)
  IN Append(r[1], r[2])
\* the tokenizer returns every field in order; whether a trailing empty field (string ends in a delimiter, or is empty) is reported is left open
TokensOk(out, s, dels) == LET f == Fields(s, dels) IN out = f \/ (f[Len(f)] = <<>> /\ out = SubSeq(f, 1, Len(f) - 1))
\* line reader: next line from position off (1-based), without CRs; returns <<line, new offset>>; size = buffer size
RECURSIVE GetsFrom(_, _, _, _)
GetsFrom(s, i, acc, room) == IF i > Len(s) \/ room = 0 THEN <<acc, i>>
                             ELSE IF s[i] = 13 THEN GetsFrom(s, i + 1, acc, room - 1)
                             ELSE IF s[i] = 10 THEN <<acc, i + 1>>
                             ELSE GetsFrom(s, i + 1, Append(acc, s[i]), room - 1)
\* first occurrence of start, then first occurrence of end after it
RECURSIVE FindFrom(_, _, _)
FindFrom(s, pat, i) == IF i + Len(pat) - 1 > Len(s) THEN 0 ELSE IF MatchAt(s, i, pat) THEN i ELSE FindFrom(s, pat, i + 1)
Between(s, a, b) == LET p == FindFrom(s, a, 1) IN
                    IF p = 0 THEN <<FALSE, <<>>>>
                    ELSE LET q == FindFrom(s, b, p + Len(a)) IN IF q = 0 THEN <<FALSE, <<>>>> ELSE <<TRUE, SubSeq(s, p + Len(a), q - 1)>>
\* sanity of the definitions themselves
ASSUME Trim(<<32, 9, 97, 32, 98, 10, 13>>) = <<97, 32, 98>>
ASSUME ReplaceStr(<<97, 97, 97>>, <<97, 97>>, <<98>>) = <<98, 97>>            \* leftmost, non-overlapping
ASSUME ReplaceTok(<<97, 44, 98>>, <<44, 59>>, <<45, 45>>) = <<97, 45, 45, 98>>
ASSUME Fields(<<97, 44, 44, 98>>, <<44>>) = << <<97>>, <<>>, <<98>> >>
ASSUME Between(<<120, 91, 97, 98, 93, 121>>, <<91>>, <<93>>) = <<TRUE, <<97, 98>>>>
===========================================================================
