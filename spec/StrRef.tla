------------------------------ MODULE StrRef ------------------------------
(* Reference definitions of the string utilities of src/utilities/qstring.c over sequences of byte  *)
(* values (C19).  Strings never contain 0.                                                            *)
EXTENDS Integers, Sequences, TLC, SequencesExt, FiniteSets
Blank(c) == c \in {32, 9, 13, 10}
RECURSIVE TrimHead(_)
TrimHead(s) == IF s # <<>> /\ Blank(Head(s)) THEN TrimHead(Tail(s)) ELSE s
RECURSIVE TrimTail(_)
TrimTail(s) == IF s # <<>> /\ Blank(s[Len(s)]) THEN TrimTail(SubSeq(s, 1, Len(s) - 1)) ELSE s
Trim(s) == TrimTail(TrimHead(s))
\* qstrunchar: strips the pair only if both ends match
UncharOk(s, h, t) == Len(s) >= 2 /\ s[1] = h /\ s[Len(s)] = t
Unchar(s, h, t) == IF UncharOk(s, h, t) THEN SubSeq(s, 2, Len(s) - 1) ELSE s
\* token mode: every character that occurs in toks is replaced by word
ReplaceTok(s, toks, word) == FlattenSeq([i \in 1..Len(s) |-> IF \E j \in 1..Len(toks) : toks[j] = s[i] THEN word ELSE <<s[i]>>])
\* string mode: every leftmost non-overlapping occurrence of tok (non-empty) is replaced by word
MatchAt(s, i, tok) == i + Len(tok) - 1 <= Len(s) /\ SubSeq(s, i, i + Len(tok) - 1) = tok
ReplaceStr(s, tok, word) ==
  FoldLeft(LAMBDA st, i : IF st[2] > 0 THEN <<st[1], st[2] - 1>>
                          ELSE IF MatchAt(s, i, tok) THEN <<st[1] \o word, Len(tok) - 1>>
                          ELSE <<Append(st[1], s[i]), 0>>,
           <<<<>>, 0>>, [i \in 1..Len(s) |-> i])[1]
\* bounded copy: at most size-1 bytes, always terminated
NCpy(src, size, nbytes) == SubSeq(src, 1, IF nbytes >= size THEN size - 1 ELSE nbytes)
Rev(s) == [i \in 1..Len(s) |-> s[Len(s) + 1 - i]]
Upper(s) == [i \in 1..Len(s) |-> IF s[i] >= 97 /\ s[i] <= 122 THEN s[i] - 32 ELSE s[i]]
Lower(s) == [i \in 1..Len(s) |-> IF s[i] >= 65 /\ s[i] <= 90 THEN s[i] + 32 ELSE s[i]]
\* fields separated by any of the delimiter characters, empty fields included
Fields(s, dels) ==
  LET isdel(c) == \E j \in 1..Len(dels) : dels[j] = c
      r == FoldLeft(LAMBDA st, c : IF isdel(c) THEN <<Append(st[1], st[2]), <<>>>> ELSE <<st[1], Append(st[2], c)>>, <<<<>>, <<>>>>, s)
  IN Append(r[1], r[2])
\* the tokenizer returns every field in order; whether a trailing empty field (string ends in a delimiter, or is empty) is reported is left open
TokensOk(out, s, dels) == LET f == Fields(s, dels) IN out = f \/ (f[Len(f)] = <<>> /\ out = SubSeq(f, 1, Len(f) - 1))
\* qstrtok also reports what ended each field: the delimiters of the string in order, then 0 for a last field that runs to the end
StopsOf(s, dels) == LET f == Fields(s, dels) IN
                    SelectSeq(s, LAMBDA c : \E j \in 1..Len(dels) : dels[j] = c) \o (IF f[Len(f)] # <<>> THEN <<0>> ELSE <<>>)
\* line reader: next line from position off (1-based), without CRs; returns <<line, new offset>>; size = buffer size
RECURSIVE GetsFrom(_, _, _, _)
GetsFrom(s, i, acc, room) == IF i > Len(s) \/ room = 0 THEN <<acc, i>>
                             ELSE IF s[i] = 13 THEN GetsFrom(s, i + 1, acc, room - 1)
                             ELSE IF s[i] = 10 THEN <<acc, i + 1>>
                             ELSE GetsFrom(s, i + 1, Append(acc, s[i]), room - 1)
\* first occurrence of start, then first occurrence of end after it
RECURSIVE FindFrom(_, _, _)
FindFrom(s, pat, i) == IF i + Len(pat) - 1 > Len(s) THEN 0 ELSE IF MatchAt(s, i, pat) THEN i ELSE FindFrom(s, pat, i + 1)
Between(s, a, b) == LET p == FindFrom(s, a, 1) IN
                    IF p = 0 THEN <<FALSE, <<>>>>
                    ELSE LET q == FindFrom(s, b, p + Len(a)) IN IF q = 0 THEN <<FALSE, <<>>>> ELSE <<TRUE, SubSeq(s, p + Len(a), q - 1)>>
\* ---- the remaining routines: predicates, number formatting, formatted append ----
Digit(c) == c >= 48 /\ c <= 57
Alnum(c) == Digit(c) \/ (c >= 65 /\ c <= 90) \/ (c >= 97 /\ c <= 122)
AllIn(s, P(_)) == \A i \in 1..Len(s) : P(s[i])
\* decimal value of a digit string, saturating (strings may be long, TLC integers are 32 bit)
DecVal(p) == FoldLeft(LAMBDA a, c : IF a > 100000 THEN a ELSE a * 10 + (c - 48), 0, p)
\* dotted quad: exactly four parts, each a non-empty run of digits with a value of 0..255.
OctetOk(p) == p # <<>> /\ AllIn(p, Digit) /\ DecVal(p) <= 255
LeadingZero(p) == Len(p) >= 2 /\ p[1] = 48
\* Whether parts with superfluous leading zeros ("01") are accepted is left open.
Ip4Ok(res, s) == LET f == Fields(s, <<46>>) IN
                 IF Len(f) = 4 /\ \A i \in 1..4 : OctetOk(f[i]) THEN (res \/ \E i \in 1..4 : LeadingZero(f[i])) ELSE ~res
\* e-mail address: the documentation only says "email-address formatted"; decided are the clear cases on both sides.
EmailChar(c) == Alnum(c) \/ c = 45 \/ c = 95
Count(s, c) == Cardinality({i \in 1..Len(s) : s[i] = c})
EmailMustReject(s) == \/ Count(s, 64) # 1 \/ s[1] = 64 \/ s[Len(s)] = 64
                      \/ Count(s, 46) = 0
                      \/ \E i \in 1..Len(s) : ~(EmailChar(s[i]) \/ s[i] = 64 \/ s[i] = 46)
                      \/ \E i \in 1..Len(s) - 1 : s[i] = 64 /\ s[i + 1] = 46
                      \/ \E i \in 1..Len(s) - 1 : s[i] = 46 /\ s[i + 1] = 46 /\ \E j \in 1..i : s[j] = 64
EmailMustAccept(s) == /\ Count(s, 64) = 1
                      /\ LET at == CHOOSE i \in 1..Len(s) : s[i] = 64
                             loc == SubSeq(s, 1, at - 1)
                             labels == Fields(SubSeq(s, at + 1, Len(s)), <<46>>)
                         IN /\ Len(loc) >= 2 /\ AllIn(loc, EmailChar)
                            /\ Len(labels) >= 2 /\ \A k \in 1..Len(labels) : Len(labels[k]) >= 2 /\ AllIn(labels[k], EmailChar)
EmailOk(res, s) == IF s = <<>> THEN ~res ELSE (EmailMustReject(s) => ~res) /\ (EmailMustAccept(s) => res)
\* decimal digits of a natural number; thousands separators
RECURSIVE Digits(_)
Digits(n) == IF n < 10 THEN <<48 + n>> ELSE Append(Digits(n \div 10), 48 + (n % 10))
Group3(d) == FlattenSeq([i \in 1..Len(d) |-> IF i > 1 /\ (Len(d) - i + 1) % 3 = 0 THEN <<44, d[i]>> ELSE <<d[i]>>])
\* the magnitude is given as q*10+r because |INT_MIN| is not a TLC integer
CommaNumber(neg, q, r) == (IF neg THEN <<45>> ELSE <<>>) \o Group3(IF q = 0 THEN <<48 + r>> ELSE Append(Digits(q), 48 + r))
LowerHex(c) == Digit(c) \/ (c >= 97 /\ c <= 102)
\* sanity of the definitions themselves
ASSUME Trim(<<32, 9, 97, 32, 98, 10, 13>>) = <<97, 32, 98>>
ASSUME ReplaceStr(<<97, 97, 97>>, <<97, 97>>, <<98>>) = <<98, 97>>            \* leftmost, non-overlapping
ASSUME ReplaceTok(<<97, 44, 98>>, <<44, 59>>, <<45, 45>>) = <<97, 45, 45, 98>>
ASSUME Fields(<<97, 44, 44, 98>>, <<44>>) = << <<97>>, <<>>, <<98>> >>
ASSUME StopsOf(<<97, 44, 98, 32, 99>>, <<44, 32>>) = <<44, 32, 0>> /\ StopsOf(<<97, 44>>, <<44>>) = <<44>>
ASSUME Between(<<120, 91, 97, 98, 93, 121>>, <<91>>, <<93>>) = <<TRUE, <<97, 98>>>>
ASSUME CommaNumber(TRUE, 214748364, 8) = <<45, 50,44, 49,52,55,44, 52,56,51,44, 54,52,56>>     \* -2,147,483,648
ASSUME CommaNumber(FALSE, 0, 0) = <<48>> /\ CommaNumber(FALSE, 99, 9) = <<57,57,57>> /\ CommaNumber(FALSE, 100, 0) = <<49,44,48,48,48>>
ASSUME Ip4Ok(TRUE, <<49,50,55,46,48,46,48,46,49>>) /\ ~Ip4Ok(FALSE, <<49,50,55,46,48,46,48,46,49>>)          \* 127.0.0.1
ASSUME Ip4Ok(FALSE, <<49,46,50,46,51,46,50,53,54>>) /\ ~Ip4Ok(TRUE, <<49,46,50,46,51,46,50,53,54>>)          \* 1.2.3.256
ASSUME Ip4Ok(FALSE, <<49,46,50,46,51>>) /\ Ip4Ok(FALSE, <<49,46,50,46,51,46>>) /\ Ip4Ok(TRUE, <<48,49,46,50,46,51,46,52>>) /\ Ip4Ok(FALSE, <<48,49,46,50,46,51,46,52>>)
ASSUME EmailOk(TRUE, <<97,98,64,99,100,46,101,102>>) /\ ~EmailOk(FALSE, <<97,98,64,99,100,46,101,102>>)     \* ab@cd.ef
ASSUME EmailOk(FALSE, <<97,98,99,100>>) /\ ~EmailOk(TRUE, <<97,64,98,64,99,46,100>>)
===========================================================================
