----------------------------- MODULE HashTbl -----------------------------
(* qhashtbl: separate-chaining hash table from NUL-terminated string keys to byte values (C05).  *)
(* State: chain[i] = keys stored in slot i, head first (the code inserts at the head), and        *)
(* val[k].  The home slot of a key is an argument of every operation (in the model it is the      *)
(* constant Home[k]; in trace validation it is what the real hash function gave), so all         *)
(* collision patterns - including Range = 1 where every key shares one chain - are explored.     *)
EXTENDS Integers, Sequences, FiniteSets, TLC, Json
CONSTANTS Range,   \* number of slots
          Keys,    \* key ids
          Home,    \* Home[k] \in 0..Range-1  (tuple, defined in MC_HashTbl)
          Vals     \* value ids
VARIABLES chain, val, lastOp
vars == <<chain, val, lastOp>>
Res(c, v, ok, err, rv, out) == [chain |-> c, val |-> v, ok |-> ok, err |-> err, rv |-> rv, out |-> out]
InSeq(s, k) == \E j \in 1..Len(s) : s[j] = k
Without(s, k) == SelectSeq(s, LAMBDA x : x # k)
Stored(c) == {k \in Keys : \E i \in DOMAIN c : InSeq(c[i], k)}
\* getnext order of the code: slots ascending, chain order within a slot (informational in conformance)
RECURSIVE WalkFrom(_, _)
WalkFrom(c, i) == IF i >= Range THEN <<>> ELSE c[i] \o WalkFrom(c, i + 1)
WalkKV(c, v) == LET w == WalkFrom(c, 0) IN [j \in 1..Len(w) |-> <<w[j], v[w[j]]>>]
Count(v) == Cardinality({k \in Keys : v[k] # 0})          \* = |Stored(chain)| by WellFormed
EmptyChains == [i \in 0..(Range - 1) |-> <<>>]
NoVals == [j \in Keys |-> 0]
\* h = home slot of key k
Apply(c, v, op, k, x, h) ==
  CASE op = "put" -> IF InSeq(c[h], k) THEN Res(c, [v EXCEPT ![k] = x], TRUE, 0, 0, <<>>)                   \* replace in place
                     ELSE Res([c EXCEPT ![h] = <<k>> \o @], [v EXCEPT ![k] = x], TRUE, 0, 0, <<>>)          \* insert at head
    [] op = "get" -> IF InSeq(c[h], k) THEN Res(c, v, TRUE, 0, v[k], <<>>) ELSE Res(c, v, FALSE, 1, 0, <<>>)
    [] op = "remove" -> IF InSeq(c[h], k) THEN Res([c EXCEPT ![h] = Without(@, k)], [v EXCEPT ![k] = 0], TRUE, 0, 0, <<>>)
                        ELSE Res(c, v, FALSE, 1, 0, <<>>)
    [] op = "clear" -> Res(EmptyChains, NoVals, TRUE, 0, 0, <<>>)
    [] op = "size" -> Res(c, v, TRUE, 0, Count(v), <<>>)
    [] op = "debug" -> Res(c, v, TRUE, 0, 0, <<>>)
    [] op = "walk" -> Res(c, v, TRUE, 0, Count(v), WalkKV(c, v))
Allocating == {"put", "get", "walk"}
Init == chain = EmptyChains /\ val = NoVals /\ lastOp = [op |-> "init", k |-> 0, v |-> 0]
Do(op, k, x) == LET r == Apply(chain, val, op, k, x, IF k = 0 THEN 0 ELSE Home[k]) IN
                chain' = r.chain /\ val' = r.val /\ lastOp' = [op |-> op, k |-> k, v |-> x]
Next == \/ \E k \in Keys, x \in Vals : Do("put", k, x)
        \/ \E op \in {"get", "remove"}, k \in Keys : Do(op, k, 0)
        \/ \E op \in {"clear", "size", "walk", "debug"} : Do(op, 0, 0)
Spec == Init /\ [][Next]_vars
\* ---- design properties ----
\* chains partition the stored keys by home slot, no key twice
WellFormed == /\ \A i \in 0..(Range - 1) : \A j \in 1..Len(chain[i]) : Home[chain[i][j]] = i
              /\ \A i \in 0..(Range - 1) : \A a, b \in 1..Len(chain[i]) : a # b => chain[i][a] # chain[i][b]
              /\ \A k \in Keys : (val[k] # 0) = (k \in Stored(chain))
\* refinement to the ideal map (labelled): get returns the last value put, remove only removes its key
AbsMap == [k \in Stored(chain) |-> val[k]]
IdealStep == [][LET m == [k \in Stored(chain) |-> val[k]]  m2 == [k \in Stored(chain') |-> val'[k]]  o == lastOp' IN
                CASE o.op = "put" -> m2 = [k \in DOMAIN m \cup {o.k} |-> IF k = o.k THEN o.v ELSE m[k]]
                  [] o.op = "remove" -> m2 = [k \in DOMAIN m \ {o.k} |-> m[k]]
                  [] o.op = "clear" -> DOMAIN m2 = {}
                  [] OTHER -> m2 = m]_vars
View == <<chain, val>>
ChainsOf(c) == [i \in 1..Range |-> c[i - 1]]
Dump == PrintT(ToJson([from |-> <<ChainsOf(chain), val>>, op |-> lastOp', to |-> <<ChainsOf(chain'), val'>>]))
==========================================================================
