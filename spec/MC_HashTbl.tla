---- MODULE MC_HashTbl ----
EXTENDS HashTbl
CONSTANT NKeys
KeysN == 1..NKeys
H1 == <<0, 0, 0, 0>>       \* Range 1: all keys share one chain
H2 == <<0, 0, 0, 1>>       \* Range 2: 3 + 1
H3 == <<0, 1, 1, 2>>       \* Range 3: mixed
H5 == <<0, 0, 0, 0, 0>>    \* Range 1, five keys (thorough)
HR == [k \in Keys |-> 0]   \* placeholder for trace validation (homes come from the events)
====
