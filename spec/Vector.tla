---------------------------- MODULE Vector ----------------------------
(* qvector: an array of fixed-size elements (property C10).                                   *)
(* State: elems (the elements, by value id), cap (allocated slots).  Every public operation    *)
(* of src/containers/qvector.c is one action; its complete observable result is computed by    *)
(* the pure operator Apply, which is shared by the model (Next) and by the trace specification *)
(* (VectorTrace) that judges events recorded from the real library.                            *)
EXTENDS Integers, Sequences, TLC, Json
CONSTANTS MaxLen,      \* model bound on the number of elements
          Vals,        \* value ids
          Policy,      \* "exact" | "linear" | "double"   (QVECTOR_RESIZE_*)
          InitCap      \* first argument of qvector()
VARIABLES elems, cap, lastOp
vars == <<elems, cap, lastOp>>

InitNum == IF InitCap = 0 THEN 1 ELSE InitCap
\* error classes (harness/vh.c: vh_ecls): 0 none 1 ENOENT 2 EINVAL 3 ERANGE 4 ENOBUFS 5 ENOMEM
Res(e, c, ok, err, v, arr) == [elems |-> e, cap |-> c, ok |-> ok, err |-> err, v |-> v, arr |-> arr]
InsertAt0(s, i, v) == SubSeq(s, 1, i) \o <<v>> \o SubSeq(s, i + 1, Len(s))     \* i = 0-based position
RemoveAt0(s, i) == SubSeq(s, 1, i) \o SubSeq(s, i + 2, Len(s))
Rev(s) == [j \in 1..Len(s) |-> s[Len(s) + 1 - j]]
\* growth step taken by addat when the vector is full; the property only demands cap >= size
Grow(c) == IF Policy = "double" THEN (c + 1) * 2 ELSE IF Policy = "linear" THEN c + InitNum ELSE c + 1

\* qvector_addat: a negative index counts from the end (-1 = before the last element)
AddAtOp(e, c, i, v) ==
  LET n == Len(e)  idx == IF i < 0 THEN i + n ELSE i IN
  IF idx < 0 \/ idx > n THEN Res(e, c, FALSE, 3, 0, <<>>)
  ELSE Res(InsertAt0(e, idx, v), IF n >= c THEN Grow(c) ELSE c, TRUE, 0, 0, <<>>)
\* get_at / remove_at index rule
Locate(e, i) == LET n == Len(e)  idx == IF i < 0 THEN i + n ELSE i IN
  IF idx < 0 \/ idx >= n THEN [ok |-> FALSE, err |-> IF n = 0 THEN 1 ELSE 3, idx |-> 0]
  ELSE [ok |-> TRUE, err |-> 0, idx |-> idx]
GetAtOp(e, c, i) == LET p == Locate(e, i) IN
  IF p.ok THEN Res(e, c, TRUE, 0, e[p.idx + 1], <<>>) ELSE Res(e, c, FALSE, p.err, 0, <<>>)
SetAtOp(e, c, i, v) == LET p == Locate(e, i) IN
  IF p.ok THEN Res([e EXCEPT ![p.idx + 1] = v], c, TRUE, 0, 0, <<>>) ELSE Res(e, c, FALSE, p.err, 0, <<>>)
PopAtOp(e, c, i) == LET p == Locate(e, i) IN
  IF p.ok THEN Res(RemoveAt0(e, p.idx), c, TRUE, 0, e[p.idx + 1], <<>>) ELSE Res(e, c, FALSE, p.err, 0, <<>>)
RemoveAtOp(e, c, i) == LET p == Locate(e, i) IN
  IF p.ok THEN Res(RemoveAt0(e, p.idx), c, TRUE, 0, 0, <<>>) ELSE Res(e, c, FALSE, p.err, 0, <<>>)
\* resize(m): capacity becomes m, elements beyond m are dropped; the vector stays usable after 0
ResizeOp(e, c, m) == Res(IF Len(e) > m THEN SubSeq(e, 1, m) ELSE e, m, TRUE, 0, 0, <<>>)
ToArrayOp(e, c) == IF Len(e) = 0 THEN Res(e, c, FALSE, 1, 0, <<>>) ELSE Res(e, c, TRUE, 0, Len(e), e)

Apply(e, c, op, i, v) ==
  CASE op = "addat" -> AddAtOp(e, c, i, v)
    [] op = "addfirst" -> AddAtOp(e, c, 0, v)
    [] op = "addlast" -> AddAtOp(e, c, Len(e), v)
    [] op = "getat" -> GetAtOp(e, c, i)
    [] op = "getfirst" -> GetAtOp(e, c, 0)
    [] op = "getlast" -> GetAtOp(e, c, -1)
    [] op = "setat" -> SetAtOp(e, c, i, v)
    [] op = "setfirst" -> SetAtOp(e, c, 0, v)
    [] op = "setlast" -> SetAtOp(e, c, -1, v)
    [] op = "popat" -> PopAtOp(e, c, i)
    [] op = "popfirst" -> PopAtOp(e, c, 0)
    [] op = "poplast" -> PopAtOp(e, c, -1)
    [] op = "removeat" -> RemoveAtOp(e, c, i)
    [] op = "removefirst" -> RemoveAtOp(e, c, 0)
    [] op = "removelast" -> RemoveAtOp(e, c, -1)
    [] op = "reverse" -> Res(Rev(e), c, TRUE, 0, 0, <<>>)
    [] op = "clear" -> Res(<<>>, c, TRUE, 0, 0, <<>>)
    [] op = "resize" -> ResizeOp(e, c, i)
    [] op = "toarray" -> ToArrayOp(e, c)
    [] op = "walk" -> Res(e, c, TRUE, 0, Len(e), e)        \* complete getnext loop from a zeroed cursor
    [] op = "size" -> Res(e, c, TRUE, 0, Len(e), <<>>)
    [] op = "debug" -> Res(e, c, TRUE, 0, 0, <<>>)                \* printing the container changes nothing

IdxOps == {"addat", "getat", "setat", "popat", "removeat"}
ValOps == {"addat", "addfirst", "addlast", "setat", "setfirst", "setlast"}
NoArgOps == {"getfirst", "getlast", "popfirst", "poplast", "removefirst", "removelast", "reverse", "clear",
             "toarray", "walk", "size", "debug"}
Adds == {"addat", "addfirst", "addlast"}
Allocating == Adds \cup {"getat", "getfirst", "getlast", "popat", "popfirst", "poplast", "reverse", "resize",
                         "toarray", "walk"}

Init == elems = <<>> /\ cap = InitCap /\ lastOp = [op |-> "init", i |-> 0, v |-> 0]
Do(op, i, v) == /\ (op \in Adds => Len(elems) < MaxLen)
                /\ LET r == Apply(elems, cap, op, i, v) IN elems' = r.elems /\ cap' = r.cap
                /\ lastOp' = [op |-> op, i |-> i, v |-> v]
Next == \/ \E op \in IdxOps \cap ValOps, i \in (-Len(elems) - 2)..(Len(elems) + 2), v \in Vals : Do(op, i, v)
        \/ \E op \in IdxOps \ ValOps, i \in (-Len(elems) - 2)..(Len(elems) + 2) : Do(op, i, 0)
        \/ \E op \in ValOps \ IdxOps, v \in Vals : Do(op, 0, v)
        \/ \E op \in NoArgOps : Do(op, 0, 0)
        \/ \E m \in 0..(MaxLen + 1) : Do("resize", m, 0)
Spec == Init /\ [][Next]_vars

\* ---- properties of the design (checked by TLC on every reachable state / step) ----
TypeOK == elems \in Seq(Vals) /\ cap \in Nat
CapOK == cap >= Len(elems)
\* a refused call changes nothing; capacity changes never alter surviving elements
RefusalsHarmless == [][LET r == Apply(elems, cap, lastOp'.op, lastOp'.i, lastOp'.v) IN ~r.ok => elems' = elems]_vars
GrowthPreserves == [][lastOp'.op = "resize" =>
                        \A j \in 1..Len(elems') : elems'[j] = elems[j]]_vars
View == <<elems, cap>>
Dump == PrintT(ToJson([from |-> <<elems, cap>>, op |-> lastOp', to |-> <<elems', cap'>>]))
=======================================================================
