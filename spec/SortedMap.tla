---------------------------- MODULE SortedMap ----------------------------
(* The ideal sorted map of property C01: what a tree table must look like through its API.      *)
(* Every step carries a label `last` = [op, a, b, res] (operation, arguments, result), so a       *)
(* refinement check compares not only the contents but the result of every single call.         *)
EXTENDS Integers, FiniteSets
CONSTANTS MaxKey, Vals
VARIABLES map, last
Keys == 1..MaxKey
MinOf(S) == CHOOSE k \in S : \A j \in S : k <= j
MaxOf(S) == CHOOSE k \in S : \A j \in S : j <= k
Floor(S, p) == IF \E k \in S : k <= p THEN MaxOf({k \in S : k <= p}) ELSE MinOf(S)
L(op, a, b, res) == [op |-> op, a |-> a, b |-> b, res |-> res]
Init == map = [k \in {} |-> 0] /\ last = L("init", 0, 0, 0)
\* re-putting an existing key replaces its value without changing the key count; other keys untouched
Put(k, v) == map' = [x \in DOMAIN map \cup {k} |-> IF x = k THEN v ELSE map[x]] /\ last' = L("put", k, v, 1)
\* remove succeeds exactly when the key is present and removes only that key
Remove(k) == /\ map' = [x \in DOMAIN map \ {k} |-> map[x]]
             /\ last' = L("rm", k, 0, IF k \in DOMAIN map THEN 1 ELSE 0)
Get(k) == UNCHANGED map /\ last' = L("get", k, 0, IF k \in DOMAIN map THEN map[k] ELSE 0)
FindMin == UNCHANGED map /\ last' = L("min", 0, 0, IF DOMAIN map = {} THEN 0 ELSE MinOf(DOMAIN map))
FindMax == UNCHANGED map /\ last' = L("max", 0, 0, IF DOMAIN map = {} THEN 0 ELSE MaxOf(DOMAIN map))
Size == UNCHANGED map /\ last' = L("size", 0, 0, Cardinality(DOMAIN map))
Clear == map' = [k \in {} |-> 0] /\ last' = L("clear", 0, 0, 0)
Debug == UNCHANGED map /\ last' = L("debug", 0, 0, 1)
\* traversal steps never change the contents; each element returned is a stored key (C03 adds order/completeness)
IterStep == /\ UNCHANGED map /\ last'.op \in {"next", "abandon"}
            /\ (last'.op = "next" /\ last'.res # 0 => last'.res \in DOMAIN map)
\* nearest-key search: floor semantics, a function of the key set only (C04)
Nearest == /\ UNCHANGED map /\ last'.op = "nearest"
           /\ last'.res = (IF DOMAIN map = {} THEN 0 ELSE Floor(DOMAIN map, last'.a))      \* 0: not found (empty table)
Next == \/ \E k \in Keys, v \in Vals : Put(k, v)
        \/ \E k \in Keys : Remove(k) \/ Get(k)
        \/ FindMin \/ FindMax \/ Size \/ Clear \/ Debug \/ IterStep \/ Nearest
Spec == Init /\ [][Next]_<<map, last>>
==========================================================================
