----------------------------- MODULE LinCheck -----------------------------
(* Decides linearizability of histories recorded from the real thread-safe containers (C13).        *)
(* Input (IOEnv.TRACE): one JSON line per history: kind, init (state at the start, quiescent), ops    *)
(* [{t, op, a, b, inv, res, out, outs}] with invocation/response sequence numbers, final (state       *)
(* observed at the next quiescent point).  For each history TLC searches the linear extensions of     *)
(* the real-time order (an operation may be taken when no untaken operation responded before it was   *)
(* invoked) whose results agree with ConcSpec!SApply and that end in `final`.  Every history for      *)
(* which the search succeeds prints "LINOK <index>"; a history without that line is not               *)
(* linearizable.  Hash-table walks are compared as sets (their order is unspecified).                 *)
EXTENDS ConcSpec, TLC, Json, IOUtils
CONSTANT Kind, SetWalk
VARIABLES r, done, st
H == ndJsonDeserialize(IOEnv.TRACE)
NR == Len(H)
Ops(i) == H[i].ops
\* states arrive as JSON: sequences for seq/mmap, list of [k,v] pairs for map
ToState(x) == IF Kind = "map" THEN [k \in Keys |-> IF \E i \in 1..Len(x) : x[i][1] = k
                                                   THEN (LET i == CHOOSE i \in 1..Len(x) : x[i][1] = k IN x[i][2]) ELSE 0]
              ELSE x
SetOf(s) == {s[i] : i \in 1..Len(s)}
OutsEq(o, exp) == IF SetWalk /\ o.op = "walk" THEN Len(o.outs) = Len(exp) /\ SetOf(o.outs) = SetOf(exp) ELSE o.outs = exp
Init == r \in 1..NR /\ done = {} /\ st = ToState(H[r].init)
Take == /\ done # {-1}
        /\ \E j \in (1..Len(Ops(r))) \ done :
             LET o == Ops(r)[j]  res == SApply(Kind, st, o) IN
             /\ \A i \in (1..Len(Ops(r))) \ done : ~(Ops(r)[i].res < o.inv)
             /\ res[2] = o.out /\ OutsEq(o, res[3])
             /\ st' = res[1] /\ done' = done \cup {j}
        /\ UNCHANGED r
Close == /\ done = 1..Len(Ops(r)) /\ st = ToState(H[r].final)
         /\ PrintT("LINOK " \o ToString(r))
         /\ done' = {-1} /\ UNCHANGED <<r, st>>
Next == Take \/ Close
Spec == Init /\ [][Next]_<<r, done, st>>
===========================================================================
