----------------------------- MODULE ConcSpec -----------------------------
(* Sequential meaning of the operations used in the concurrency models and in the linearizability  *)
(* check of recorded histories (C13).  Three kinds of container state:                               *)
(*   "seq"  - qvector / qlist (queue, stack): a sequence of integer elements                         *)
(*   "map"  - qhashtbl / qtreetbl: key -> value, 0 = absent, Keys = 1..NK                            *)
(*   "mmap" - qlisttbl with default options: sequence of <<key, value>>, put appends, lookups and    *)
(*            walks run from the bottom (most recent first)                                          *)
(*   "umap" - qlisttbl with the unique option: as "mmap", but a put replaces the entries of its key   *)
(* An operation is a record [op, a, b]; SApply gives <<state', out, outs>> (integer result and        *)
(* sequence result).  Elements and values are >= 1, so 0 can mean "none".                             *)
EXTENDS Integers, Sequences, FiniteSets
CONSTANT NK
Keys == 1..NK
Rev(s) == [j \in 1..Len(s) |-> s[Len(s) + 1 - j]]
Last(s) == s[Len(s)]
Front(s) == SubSeq(s, 1, Len(s) - 1)
RECURSIVE PairsFrom(_, _)
PairsFrom(m, k) == IF k > NK THEN <<>> ELSE (IF m[k] # 0 THEN << <<k, m[k]>> >> ELSE <<>>) \o PairsFrom(m, k + 1)
InitState(kind) == IF kind = "map" THEN [k \in Keys |-> 0] ELSE <<>>
SeqApply(s, o) ==
  CASE o.op = "addlast" -> <<Append(s, o.a), 1, <<>>>>
    [] o.op = "addfirst" -> <<<<o.a>> \o s, 1, <<>>>>
    [] o.op = "popfirst" -> IF s = <<>> THEN <<s, 0, <<>>>> ELSE <<Tail(s), Head(s), <<>>>>
    [] o.op = "poplast" -> IF s = <<>> THEN <<s, 0, <<>>>> ELSE <<Front(s), Last(s), <<>>>>
    [] o.op = "getat" -> IF o.a >= Len(s) THEN <<s, 0, <<>>>> ELSE <<s, s[o.a + 1], <<>>>>
    [] o.op = "clear" -> <<<<>>, 1, <<>>>>
    [] o.op = "toarray" -> <<s, Len(s), s>>
    [] o.op = "walk" -> <<s, Len(s), s>>
MapApply(m, o) ==
  CASE o.op = "put" -> <<[m EXCEPT ![o.a] = o.b], 1, <<>>>>
    [] o.op = "get" -> <<m, m[o.a], <<>>>>
    [] o.op = "remove" -> <<[m EXCEPT ![o.a] = 0], IF m[o.a] # 0 THEN 1 ELSE 0, <<>>>>
    [] o.op = "clear" -> <<[k \in Keys |-> 0], 1, <<>>>>
    [] o.op = "walk" -> LET p == PairsFrom(m, 1) IN <<m, Len(p), p>>
MMapApply(s, o) ==
  LET match == SelectSeq(s, LAMBDA e : e[1] = o.a) IN
  CASE o.op = "put" -> <<Append(s, <<o.a, o.b>>), 1, <<>>>>
    [] o.op = "get" -> <<s, IF match = <<>> THEN 0 ELSE Last(match)[2], <<>>>>
    [] o.op = "remove" -> <<SelectSeq(s, LAMBDA e : e[1] # o.a), Len(match), <<>>>>
    [] o.op = "clear" -> <<<<>>, 1, <<>>>>
    [] o.op = "walk" -> <<s, Len(s), Rev(s)>>
\* "umap": qlisttbl with the unique option: a put first drops every entry of that key, all within one critical section
UMapApply(s, o) == IF o.op = "put" THEN <<Append(SelectSeq(s, LAMBDA e : e[1] # o.a), <<o.a, o.b>>), 1, <<>>>> ELSE MMapApply(s, o)
SApply(kind, s, o) == IF kind = "seq" THEN SeqApply(s, o) ELSE IF kind = "map" THEN MapApply(s, o)
                      ELSE IF kind = "umap" THEN UMapApply(s, o) ELSE MMapApply(s, o)
===========================================================================
