---------------------------- MODULE AconfTrace ----------------------------
(* Judges, per parsed document, what the real qaconf did (return value, reported line mapped back to  *)
(* the abstract line, complete callback stream) against AconfRef!Expect (C20).                         *)
EXTENDS AconfRef, TLCExt
VARIABLE l
T == ndJsonDeserialize(IOEnv.TRACE)
NT == Len(T)
Ev == T[l]
Obs(e) == [ret |-> e.ret, errline |-> e.errline, cbs |-> e.cbs]
Init == l = 1
Next == /\ l <= NT /\ l' = l + 1
        /\ IF Ev.fn \in {"crash", "timeout"} THEN PrintT("REJECT " \o ToJson([l |-> l, why |-> {Ev.fn}, ev |-> Ev, exp |-> ""]))
           ELSE LET x == Expect(Ev.doc) IN
                Obs(Ev) = x \/ PrintT("REJECT " \o ToJson([l |-> l, why |-> {"aconf"}, ev |-> Ev, exp |-> x]))
Consumed == TLCGet("stats").diameter - 1 = NT
===========================================================================
