----------------------------- MODULE TokenBucket -----------------------------
(* qtokenbucket (extensions/qtokenbucket.c): a rate limiter.  Not one of the listed properties; part  *)
(* of growing the specification over the rest of the library.                                         *)
(*                                                                                                     *)
(* State as the code keeps it: the token level (a double in the code; here in exact thousandths of a  *)
(* token, which is what one millisecond at an integer rate adds) and the time of the last refill.     *)
(* Every public call first refills: level += elapsed_ms * rate / 1000, capped at max - but only when  *)
(* the level is below max (an initial level above max is kept until consumed).  Time is an            *)
(* environment action (Tick).  The code reads the wall clock (gettimeofday); the harness substitutes  *)
(* a scripted clock.  Clock steps backwards are outside this model (the code would then *remove*      *)
(* tokens: noted in DESIGN.md).                                                                        *)
EXTENDS Integers, TLC, Json
CONSTANTS InitT, MaxT, Rate,     \* initial level, capacity (tokens), refill rate (tokens per second)
          Dts, Reqs,             \* time steps (ms) and request sizes (tokens) the model explores
          Horizon                \* bound on the modelled time (ms)
VARIABLES mt,        \* level in 1/1000 token, as of the last refill
          pend,      \* milliseconds elapsed since the last refill
          used,      \* tokens handed out so far          (history, for RateLimited)
          clock,     \* milliseconds since initialisation (history, for RateLimited)
          lastOp
vars == <<mt, pend, used, clock, lastOp>>
Min(a, b) == IF a < b THEN a ELSE b
Max(a, b) == IF a > b THEN a ELSE b
Cap == MaxT * 1000
Refill(m, p) == IF m < Cap THEN Min(m + p * Rate, Cap) ELSE m
CeilDiv(a, b) == (a + b - 1) \div b
\* estimate returned by qtokenbucket_waittime at level m: whole tokens still missing (the code truncates
\* the level to an int first), converted to milliseconds, rounded up
WaitOf(m, n) == IF m >= n * 1000 THEN 0 ELSE CeilDiv(1000 * (n - (m \div 1000)), Rate)
Init == mt = InitT * 1000 /\ pend = 0 /\ used = 0 /\ clock = 0 /\ lastOp = [op |-> "init", n |-> 0, ok |-> TRUE, w |-> 0]
Tick(d) == /\ clock + d <= Horizon
           /\ pend' = pend + d /\ clock' = clock + d /\ UNCHANGED <<mt, used>>
           /\ lastOp' = [op |-> "tick", n |-> d, ok |-> TRUE, w |-> 0]
Consume(n) == LET m == Refill(mt, pend) IN
              /\ pend' = 0 /\ UNCHANGED clock
              /\ IF m < n * 1000 THEN mt' = m /\ used' = used /\ lastOp' = [op |-> "consume", n |-> n, ok |-> FALSE, w |-> 0]
                 ELSE mt' = m - n * 1000 /\ used' = used + n /\ lastOp' = [op |-> "consume", n |-> n, ok |-> TRUE, w |-> 0]
WaitTime(n) == LET m == Refill(mt, pend) IN
               /\ mt' = m /\ pend' = 0 /\ UNCHANGED <<used, clock>>
               /\ lastOp' = [op |-> "wait", n |-> n, ok |-> TRUE, w |-> WaitOf(m, n)]
Next == (\E d \in Dts : Tick(d)) \/ (\E n \in Reqs : Consume(n) \/ WaitTime(n))
Spec == Init /\ [][Next]_vars
------------------------------------------------------------------------------
TypeOK == mt \in 0..Max(InitT, MaxT) * 1000 /\ pend \in 0..Horizon /\ used >= 0 /\ clock \in 0..Horizon
\* the purpose of the thing: over any prefix, no more than the initial level plus what the rate allows was handed out
RateLimited == used * 1000 <= InitT * 1000 + clock * Rate
\* tokens never come from nowhere: level + pending refill + handed out never exceeds initial level + rate x time
NoGain == mt + pend * Rate + used * 1000 <= InitT * 1000 + clock * Rate
\* the advertised waiting time is sufficient: after it has passed, a request that fits the capacity succeeds
Sufficient == \A n \in Reqs : n <= MaxT =>
                 LET m == Refill(mt, pend) IN Refill(m, WaitOf(m, n)) >= n * 1000
\* ... and it never over-estimates by more than the time of one token (the level is truncated to whole tokens)
NotExcessive == \A n \in Reqs : LET m == Refill(mt, pend) w == WaitOf(m, n) IN
                   w > 0 => (w - CeilDiv(1000, Rate) - 1) * Rate + m < n * 1000
\* a refused request changes nothing but the refill bookkeeping
RefusalHarmless == [][lastOp'.op = "consume" /\ ~lastOp'.ok => mt' = Refill(mt, pend) /\ used' = used]_vars
View == <<mt, pend, used, clock>>
Dump == PrintT(ToJson([from |-> <<mt, pend>>, op |-> lastOp', to |-> <<mt', pend'>>]))
==============================================================================
