---------------------------- MODULE HashArrImpl ----------------------------
(* qhasharr: the static hash table that lives entirely inside a user-supplied memory region       *)
(* (properties C06, C07).  Implementation-shaped level: the slot array exactly as the code keeps   *)
(* it - per slot `count` (>0 leading slot with that many keys of this home, -1 collision key,      *)
(* -2 extension block, 0 free), `hash` (home slot, or previous slot for an extension block),       *)
(* `link` (next extension block or -1), `dsz` (value bytes in this slot), key id, value id and     *)
(* part number - and the header counters used/num.  put_by_obj, get_idx, put_data (with            *)
(* rollback), remove_by_idx (with promotion of a collision key), find_avail are transcribed from   *)
(* src/containers/qhasharr.c.  Abstract level: `map` (key -> <<value id, length>>), maintained     *)
(* by the ideal bounded-map rules; Inv ties the two together and PutRule states the exact          *)
(* space-accounting rule of C06.  D1/D2 are the value bytes a key slot / an extension slot         *)
(* holds (32/66 in the real layout; 1/1 in the scaled model, which keeps every structural case).   *)
EXTENDS Integers, Sequences, FiniteSets, TLC, Json
CONSTANTS N,      \* number of slots
          Keys,   \* key ids
          Home,   \* Home[k] = home slot of key k (tuple; MC_HashArr)
          Lens,   \* value lengths the model tries
          D1, D2  \* value bytes held by a key slot / by an extension slot
VARIABLES st, map, lastOp
\* st = [s |-> [0..N-1 -> slot], used |-> Nat, num |-> Nat]
\* slot = [count, hash, link, dsz, key, vid, part]
Idx == 0..(N-1)
Empty == [count |-> 0, hash |-> 0, link |-> 0, dsz |-> 0, key |-> 0, vid |-> 0, part |-> 0]
Vals == {<<id, len>> : id \in 1..2, len \in Lens}
Need(len) == IF len <= D1 THEN 1 ELSE 1 + ((len - D1) + D2 - 1) \div D2

RECURSIVE FindAvailR(_, _, _, _)
FindAvailR(s, idx, start, first) ==
  IF ~first /\ idx = start THEN -1
  ELSE IF s[idx].count = 0 THEN idx
  ELSE FindAvailR(s, (idx + 1) % N, start, FALSE)
FindAvail(s, startidx) == LET st0 == IF startidx >= N THEN 0 ELSE startidx IN FindAvailR(s, st0, st0, TRUE)

\* get_idx: scan from hash for `count` entries with same hash
RECURSIVE GetIdxR(_, _, _, _, _, _)
GetIdxR(s, k, hash, idx, cnt, first) ==
  IF cnt >= s[hash].count THEN -1
  ELSE IF ~first /\ idx = hash THEN -1
  ELSE LET same == s[idx].hash = hash /\ (s[idx].count > 0 \/ s[idx].count = -1)
       IN IF same /\ s[idx].key = k THEN idx
          ELSE GetIdxR(s, k, hash, (idx + 1) % N, IF same THEN cnt + 1 ELSE cnt, FALSE)
GetIdx(s, k, hash) == IF s[hash].count > 0 THEN GetIdxR(s, k, hash, hash, 0, TRUE) ELSE -1

\* remove_data: follow links, freeing slots
RECURSIVE RemoveDataR(_, _, _)
RemoveDataR(x, idx, fuel) ==
  IF fuel = 0 THEN x   \* corrupted chain; WellFormed will flag elsewhere
  ELSE LET link == x.s[idx].link
           y == [x EXCEPT !.s[idx].count = 0, !.used = @ - 1]
       IN IF link = -1 THEN y ELSE RemoveDataR(y, link, fuel - 1)
RemoveData(x, idx) == LET y == RemoveDataR(x, idx, N + 1) IN [y EXCEPT !.num = @ - 1]

\* put_data: returns <<x', ok>>
RECURSIVE PutChunks(_, _, _, _, _, _, _)
\* x, head idx, cur idx, vid, remaining len, part no, whether first chunk pending
PutChunks(x, idx, cur, vid, remain, part, first) ==
  IF remain = 0 THEN <<x, TRUE>>
  ELSE IF first THEN
     LET c == IF remain > D1 THEN D1 ELSE remain
         y == [x EXCEPT !.s[cur].dsz = c, !.s[cur].vid = vid, !.s[cur].part = part, !.num = @ + 1, !.used = @ + 1]
     IN PutChunks(y, idx, cur, vid, remain - c, part + 1, FALSE)
  ELSE
     LET tmp == FindAvail(x.s, cur + 1) IN
     IF tmp < 0 THEN <<RemoveData(x, idx), FALSE>>
     ELSE LET c == IF remain > D2 THEN D2 ELSE remain
              y == [x EXCEPT !.s[tmp] = [count |-> -2, hash |-> cur, link |-> -1, dsz |-> c, key |-> 0, vid |-> vid, part |-> part],
                            !.s[cur].link = tmp, !.used = @ + 1]
          IN PutChunks(y, idx, tmp, vid, remain - c, part + 1, FALSE)
PutData(x, idx, hash, k, v, count) ==
  LET y == [x EXCEPT !.s[idx] = [count |-> count, hash |-> hash, link |-> -1, dsz |-> 0, key |-> k, vid |-> 0, part |-> 0]]
  IN PutChunks(y, idx, idx, v[1], v[2], 1, TRUE)

\* remove_by_idx: returns <<x', ok>>
RECURSIVE FindColl(_, _, _)
FindColl(s, idx, i2) ==
  IF i2 = idx THEN -1
  ELSE IF s[i2].count = -1 /\ s[i2].hash = s[idx].hash THEN i2
  ELSE FindColl(s, idx, (i2 + 1) % N)
RemoveByIdx(x, idx) ==
  LET s == x.s IN
  IF s[idx].count = 1 THEN <<RemoveData(x, idx), TRUE>>
  ELSE IF s[idx].count > 1 THEN
    LET i2 == FindColl(s, idx, (idx + 1) % N) IN
    IF i2 < 0 THEN <<x, FALSE>>
    ELSE LET bc == s[idx].count
             y == RemoveData(x, idx)
             z == [y EXCEPT !.s[idx] = y.s[i2], !.s[i2].count = 0]
             w == [z EXCEPT !.s[idx].count = bc - 1]
         IN <<IF w.s[idx].link # -1 THEN [w EXCEPT !.s[w.s[idx].link].hash = idx] ELSE w, TRUE>>
  ELSE IF s[idx].count = -1 THEN
    IF s[s[idx].hash].count <= 1 THEN <<x, FALSE>>
    ELSE <<RemoveData([x EXCEPT !.s[s[idx].hash].count = @ - 1], idx), TRUE>>
  ELSE <<x, FALSE>>

\* put_by_obj: returns <<x', ok>>
RECURSIVE PutObj(_, _, _, _)
PutObj(x, k, v, fuel) ==
  IF x.used >= N THEN <<x, FALSE>>
  ELSE LET h == Home[k] s == x.s IN
   IF s[h].count = 0 THEN PutData(x, h, h, k, v, 1)
   ELSE IF s[h].count > 0 THEN
      LET idx == GetIdx(s, k, h) IN
      IF idx >= 0 THEN PutObj(RemoveByIdx(x, idx)[1], k, v, fuel - 1)
      ELSE LET a == FindAvail(s, h) IN
           IF a < 0 THEN <<x, FALSE>>
           ELSE LET r == PutData(x, a, h, k, v, -1) IN
                IF r[2] THEN <<[r[1] EXCEPT !.s[h].count = @ + 1], TRUE>> ELSE r
   ELSE LET a == FindAvail(s, h + 1) IN
        IF a < 0 THEN <<x, FALSE>>
        ELSE LET y == [x EXCEPT !.s[a] = s[h], !.s[h].count = 0]
                 y2 == IF y.s[a].link # -1 THEN [y EXCEPT !.s[y.s[a].link].hash = a] ELSE y
                 y3 == IF y2.s[a].count = -2 THEN [y2 EXCEPT !.s[y2.s[a].hash].link = a] ELSE y2
             IN PutData(y3, h, h, k, v, 1)

\* ---- observation / invariants
KeySlots(s) == {i \in Idx : s[i].count > 0 \/ s[i].count = -1}
RECURSIVE Chain(_, _, _)
Chain(s, i, fuel) == IF fuel = 0 THEN <<-9>> ELSE IF s[i].link = -1 THEN <<i>> ELSE <<i>> \o Chain(s, s[i].link, fuel - 1)
ChainOK(s, i) ==
  LET c == Chain(s, i, N + 1) n == Len(c) IN
  /\ c[n] # -9
  /\ \A j \in 2..n : s[c[j]].count = -2 /\ s[c[j]].hash = c[j-1] /\ s[c[j]].vid = s[i].vid /\ s[c[j]].part = j
                     /\ s[c[j]].dsz >= 1 /\ s[c[j]].dsz <= D2 /\ (j < n => s[c[j]].dsz = D2)
  /\ s[i].part = 1 /\ s[i].dsz >= 1 /\ s[i].dsz <= D1 /\ (n > 1 => s[i].dsz = D1)
ChainLen(s, i) == LET c == Chain(s, i, N + 1) IN
  LET RECURSIVE Sum(_) Sum(j) == IF j = 0 THEN 0 ELSE s[c[j]].dsz + Sum(j - 1) IN Sum(Len(c))
ChainSet(s, i) == LET c == Chain(s, i, N + 1) IN {c[j] : j \in 1..Len(c)}
WellFormed(x) ==
  LET s == x.s ks == KeySlots(s) IN
  /\ x.used = Cardinality({i \in Idx : s[i].count # 0})
  /\ x.num = Cardinality(ks)
  /\ \A i \in Idx : s[i].count >= -2
  /\ \A i \in ks : ChainOK(s, i) /\ s[i].hash = Home[s[i].key]
  /\ \A i \in Idx : s[i].count > 0 => s[i].hash = i /\ s[i].count = 1 + Cardinality({j \in Idx : s[j].count = -1 /\ s[j].hash = i})
  /\ \A j \in Idx : s[j].count = -1 => s[j].hash # j /\ s[s[j].hash].count > 0
  /\ \A i, j \in ks : i # j => s[i].key # s[j].key /\ ChainSet(s, i) \cap ChainSet(s, j) = {}
  /\ \A e \in Idx : s[e].count = -2 => \E i \in ks : e \in ChainSet(s, i)
Abs(x) == LET s == x.s ks == KeySlots(s) IN
  [k \in {s[i].key : i \in ks} |-> LET i == CHOOSE i \in ks : s[i].key = k IN <<s[i].vid, ChainLen(s, i)>>]
Lookup(x, k) == LET i == GetIdx(x.s, k, Home[k]) IN IF i < 0 THEN <<0, 0>> ELSE <<x.s[i].vid, ChainLen(x.s, i)>>

Free(x) == N - x.used
Released(k) == IF k \in DOMAIN map THEN Need(map[k][2]) ELSE 0
Lbl(op, a, vid, len) == [op |-> op, a |-> a, vid |-> vid, len |-> len]
Init == st = [s |-> [i \in Idx |-> Empty], used |-> 0, num |-> 0] /\ map = <<>> /\ lastOp = Lbl("init", 0, 0, 0)
Put(k, v) == LET r == PutObj(st, k, v, 3) IN
  /\ st' = r[1]
  /\ lastOp' = Lbl("put", k, v[1], v[2])
  /\ map' = IF r[2] THEN [j \in DOMAIN map \cup {k} |-> IF j = k THEN v ELSE map[j]]
            ELSE IF Free(st) >= 1 /\ k \in DOMAIN map THEN [j \in DOMAIN map \ {k} |-> map[j]]  \* removed-then-failed
            ELSE map
Remove(k) == LET i == GetIdx(st.s, k, Home[k]) IN
  /\ lastOp' = Lbl("rm", k, 0, 0)
  /\ IF i < 0 THEN UNCHANGED <<st, map>>
     ELSE /\ st' = RemoveByIdx(st, i)[1] /\ map' = [j \in DOMAIN map \ {k} |-> map[j]]
RemoveIdx(i) == LET r == RemoveByIdx(st, i) IN
  /\ st' = r[1] /\ lastOp' = Lbl("rmidx", i, 0, 0)
  /\ map' = IF r[2] THEN [j \in DOMAIN map \ {st.s[i].key} |-> map[j]] ELSE map
Clear == st' = [s |-> [i \in Idx |-> Empty], used |-> 0, num |-> 0] /\ map' = <<>> /\ lastOp' = Lbl("clear", 0, 0, 0)
Observe(op, a) == UNCHANGED <<st, map>> /\ lastOp' = Lbl(op, a, 0, 0)
Next == \/ \E k \in Keys, v \in Vals : Put(k, v)
        \/ \E k \in Keys : Remove(k) \/ Observe("get", k)
        \/ \E i \in Idx : RemoveIdx(i)
        \/ Clear \/ Observe("size", 0) \/ Observe("walk", 0) \/ Observe("debug", 0)
Spec == Init /\ [][Next]_<<st, map, lastOp>>
Inv == /\ WellFormed(st)
       /\ Abs(st) = map
       /\ \A k \in Keys : Lookup(st, k) = IF k \in DOMAIN map THEN map[k] ELSE <<0, 0>>
       /\ st.used = LET RECURSIVE S(_) S(ks) == IF ks = {} THEN 0 ELSE LET k == CHOOSE k \in ks : TRUE IN Need(map[k][2]) + S(ks \ {k}) IN S(DOMAIN map)
\* C06: a put succeeds exactly when a slot is free and the value fits into the free slots plus those
\* released by the value it replaces; a failed put never alters another key and leaves its own key
\* unchanged or absent
PutOk(x, m, k, len) == (N - x.used) >= 1 /\ Need(len) <= (N - x.used) + (IF k \in DOMAIN m THEN Need(m[k][2]) ELSE 0)
PutRule == [][lastOp'.op = "put" =>
                LET k == lastOp'.a  ok == PutObj(st, k, <<lastOp'.vid, lastOp'.len>>, 3)[2] IN
                /\ ok = PutOk(st, map, k, lastOp'.len)
                /\ \A j \in DOMAIN map \ {k} : j \in DOMAIN map' /\ map'[j] = map[j]
                /\ (~ok => (k \notin DOMAIN map' \/ (k \in DOMAIN map /\ map'[k] = map[k])))]_<<st, map, lastOp>>
View == <<st, map>>
Slots(x) == [i \in 1..N |-> x.s[i-1]]
Dump == PrintT(ToJson([from |-> <<Slots(st), st.used, st.num>>, op |-> lastOp', to |-> <<Slots(st'), st'.used, st'.num>>]))
============================================================================
