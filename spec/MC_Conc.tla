---- MODULE MC_Conc ----
EXTENDS Conc
O(op, a, b) == [op |-> op, a |-> a, b |-> b]
\* sequence containers (vector, list)
PS1 == << <<O("addlast", 1, 0), O("popfirst", 0, 0)>>, <<O("addlast", 2, 0)>>, <<O("toarray", 0, 0)>> >>
PS2 == << <<O("addlast", 1, 0), O("getat", 0, 0)>>, <<O("addlast", 2, 0)>>, <<O("popfirst", 0, 0)>> >>
PS3 == << <<O("addfirst", 1, 0), O("poplast", 0, 0)>>, <<O("addlast", 2, 0), O("clear", 0, 0)>> >>
PS4 == << <<O("addlast", 1, 0)>>, <<O("addlast", 2, 0)>>, <<O("addlast", 3, 0)>>, <<O("toarray", 0, 0)>> >>
\* queue (push at the back = addlast, pop at the front) and stack (push and pop at the front)
PQ1 == << <<O("addlast", 1, 0), O("popfirst", 0, 0)>>, <<O("addlast", 2, 0), O("getat", 0, 0)>>, <<O("popfirst", 0, 0)>> >>
PK1 == << <<O("addfirst", 1, 0), O("popfirst", 0, 0)>>, <<O("addfirst", 2, 0), O("getat", 0, 0)>>, <<O("clear", 0, 0)>> >>
\* maps (hash table, tree table)
PM1 == << <<O("put", 1, 1), O("get", 2, 0)>>, <<O("put", 2, 2), O("remove", 1, 0)>>, <<O("walk", 0, 0)>> >>
PM2 == << <<O("put", 1, 1), O("put", 1, 2)>>, <<O("get", 1, 0), O("remove", 1, 0)>>, <<O("clear", 0, 0)>> >>
\* list table
PL1 == << <<O("put", 1, 1), O("get", 1, 0)>>, <<O("put", 1, 2), O("remove", 1, 0)>>, <<O("walk", 0, 0)>> >>
\* list table with the unique option
PU1 == << <<O("put", 1, 1), O("get", 1, 0)>>, <<O("put", 1, 2)>>, <<O("put", 1, 3), O("walk", 0, 0)>> >>
PU2 == << <<O("put", 1, 1), O("put", 2, 1)>>, <<O("put", 1, 2), O("remove", 1, 0)>>, <<O("walk", 0, 0)>> >>
====
