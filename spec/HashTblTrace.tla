--------------------------- MODULE HashTblTrace ---------------------------
(* Judges events recorded from the real qhashtbl (harness/replay_hashtbl.c).  Decisive: results,  *)
(* counter, walk output as a set of (key,value) pairs, every key exactly once in the slot the     *)
(* library's own hash assigns.  Informational (CONFORM line): chain order and walk order equal    *)
(* the model's insert-at-head prediction.                                                         *)
EXTENDS MC_HashTbl, IOUtils, TLCExt
CONSTANT Owned
VARIABLES l, skipping, nconf, ncmp
T == ndJsonDeserialize(IOEnv.TRACE)
NT == Len(T)
Ev == T[l]
Expected == Apply(chain, val, Ev.op, Ev.k, Ev.v, Ev.h)
SetOf(s) == {s[i] : i \in 1..Len(s)}
KV(c, v, i) == {<<k, v[k]>> : k \in SetOf(c[i])}
ResultOk(r) == /\ Ev.ok = r.ok /\ (~r.ok => Ev.err = r.err)
               /\ (Ev.op \in {"get", "size", "walk"} => Ev.rv = r.rv)
               /\ (Ev.op = "walk" => Len(Ev.out) = Len(r.out) /\ SetOf(Ev.out) = SetOf(r.out))
StateOk(r) == /\ Ev.num = Count(r.val)
              /\ Len(Ev.hc) = Len(r.chain[Ev.h]) /\ SetOf(Ev.hc) = KV(r.chain, r.val, Ev.h)
              /\ (Ev.full => \A i \in 0..(Range - 1) :
                    Len(Ev.chains[i + 1]) = Len(r.chain[i]) /\ SetOf(Ev.chains[i + 1]) = KV(r.chain, r.val, i))
FailedCleanly == /\ Ev.inj > 0 /\ Ev.nfail > 0 /\ Ev.op \in Allocating /\ ~Ev.ok
                 /\ StateOk([chain |-> chain, val |-> val])
Conforms(r) == /\ [j \in 1..Len(Ev.hc) |-> Ev.hc[j][1]] = r.chain[Ev.h]
               /\ (Ev.op = "walk" => Ev.out = r.out)
Why == LET r == Expected IN
       IF Ev.op = "free" THEN (IF Ev.live # 0 THEN {"leak"} ELSE {}) \cup (IF ~Ev.copies_ok THEN {"copy"} ELSE {})
       ELSE (IF FailedCleanly \/ (ResultOk(r) /\ StateOk(r)) THEN {}
             ELSE IF Ev.inj > 0 THEN {"enomem"} ELSE IF ResultOk(r) THEN {"state"} ELSE {"result"})
            \cup (IF Ev.lkd # 0 THEN {"lock"} ELSE {}) \cup (IF Ev.ovl # 0 THEN {"overlap"} ELSE {})
            \cup (IF Ev.bf # 0 THEN {"badfree"} ELSE {})
Reject(why, exp) == PrintT("REJECT " \o ToJson([l |-> l, why |-> why, ev |-> Ev, exp |-> exp]))
TInit == chain = EmptyChains /\ val = NoVals /\ lastOp = [op |-> "init", k |-> 0, v |-> 0]
         /\ l = 1 /\ skipping = FALSE /\ nconf = 0 /\ ncmp = 0
TNext == /\ l <= NT /\ l' = l + 1 /\ lastOp' = lastOp
         /\ IF Ev.op = "reset" THEN chain' = EmptyChains /\ val' = NoVals /\ skipping' = FALSE /\ UNCHANGED <<nconf, ncmp>>
            ELSE IF skipping THEN UNCHANGED <<chain, val, skipping, nconf, ncmp>>
            ELSE IF Ev.op = "ctor" THEN
                 \* constructor under allocation failure: a failed constructor leaves nothing allocated (C15)
                 IF Ev.live = 0 \/ "leak" \notin Owned THEN UNCHANGED <<chain, val, skipping, nconf, ncmp>>
                 ELSE PrintT("REJECT " \o ToJson([l |-> l, why |-> {"leak"}, ev |-> Ev, exp |-> "constructor leaked"])) /\ skipping' = TRUE /\ UNCHANGED <<chain, val, nconf, ncmp>>
            ELSE IF Ev.op \in {"crash", "timeout"} THEN
                 Reject({Ev.op, "result"}, "no action admits this event") /\ skipping' = TRUE /\ UNCHANGED <<chain, val, nconf, ncmp>>
            ELSE IF Why \cap (Owned \cup {"result", "state", "enomem"}) = {} THEN
                 /\ UNCHANGED skipping
                 /\ IF Ev.op = "free" \/ (FailedCleanly /\ ~(ResultOk(Expected) /\ StateOk(Expected)))
                    THEN UNCHANGED <<chain, val, nconf, ncmp>>
                    ELSE /\ val' = Expected.val
                         \* follow the real chain order so that one informational difference does not poison later steps
                         /\ chain' = [Expected.chain EXCEPT ![Ev.h] = [j \in 1..Len(Ev.hc) |-> Ev.hc[j][1]]]
                         /\ ncmp' = ncmp + 1 /\ nconf' = (IF Conforms(Expected) THEN nconf + 1 ELSE nconf)
            ELSE Reject(Why, IF Ev.op = "free" THEN <<>> ELSE [ok |-> Expected.ok, rv |-> Expected.rv, out |-> Expected.out,
                                                               hc |-> Expected.chain[Ev.h]])
                 /\ skipping' = TRUE /\ UNCHANGED <<chain, val, nconf, ncmp>>
         /\ (l = NT => PrintT("CONFORM " \o ToString(nconf') \o " " \o ToString(ncmp')))
Consumed == TLCGet("stats").diameter - 1 = NT
===========================================================================
