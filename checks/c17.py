"""C17 - decoders and parsers are memory-safe and terminate on arbitrary input."""
import os
import vf, pipeline, refcheck
LEVEL = "model_checking"


def run(chk, tier, seed):
    wd = pipeline.workdir("ref-dec")
    # 1. the decoders as cursor machines: all strings up to MaxLen over the significant bytes
    ml = 4 if tier == "quick" else 6
    for mach, alpha in (("url", {37, 43, 97, 70}), ("hex", {48, 97, 70, 103}), ("b64", {65, 61, 47, 45})):
        cfg = os.path.join(wd, "dec-%s.cfg" % mach)
        vf.write_cfg(cfg, constants=dict(Alphabet=alpha, MaxLen=ml, Machine=mach, StopAtTerminator=True),
                     invariants=["InBounds", "ReadsInBounds", "NoGrowth"], properties=["Terminates"], spec="Spec")
        r = vf.tlc("Decoders", cfg, workers=4, timeout=900)
        chk.add_mc("Decoders-%s" % mach, r); vf.tlc_cleanup(r)
    # 2. the same strings (longer) through the real in-place decoders and the query parser; ledger build and ASan/UBSan build
    dl = 5 if tier == "quick" else 6
    for mode in ("plain", "asan"):
        jobs = [dict(tag="dec%d" % a, args=["dec", a, dl, "{out}"]) for a in (0, 1, 2)]
        refcheck.gen_and_validate(chk, "codec", jobs, "CodecTrace", mode=mode, threads=3, timeout=1800)
        # 3. the INI-style and Apache-style parsers on exhaustive short inputs and grammar-aware random documents
        pl = 5 if tier == "quick" else 6
        nr = 400 if tier == "quick" else 3000
        # C17 is about bounds and termination, not leaks: LeakSanitizer is off here (the pinned _parsestr leaks its
        # scratch name when a ${variable} is undefined; no listed property covers that)
        noleak = dict(ASAN_OPTIONS="detect_leaks=0:abort_on_error=0:exitcode=66:allocator_may_return_null=1")
        pj = [dict(tag="ini", args=["ini", pl, "{start}", "{out}"], max_restarts=6, one_line_per_input=True, env=noleak),
              dict(tag="aconf", args=["aconf", pl, "{start}", os.path.join(wd, "scratch-%s-%s.conf" % (mode, chk.pid)), "{out}"], max_restarts=6, one_line_per_input=True, env=noleak),
              dict(tag="inir", args=["inir", nr, seed, "{out}"], env=noleak),
              dict(tag="aconfr", args=["aconfr", nr, seed, os.path.join(wd, "scratchr-%s-%s.conf" % (mode, chk.pid)), "{out}"], env=noleak),
              dict(tag="inif", args=["inif", nr // 2, seed, os.path.join(wd, "incdir-%s-%s" % (mode, chk.pid)), "{out}"], env=noleak, max_restarts=6)]
        refcheck.gen_and_validate(chk, "parsers", pj, "CodecTrace", mode=mode, threads=4, extra_wraps=["qsyscmd"], timeout=1800)
    chk.cov["exhaustive"] = not chk.infra
    chk.cov["rule"] = ("TLC runs the URL/hex/Base64 in-place decoders as cursor machines over every string up to length 4-6 on each format's significant "
                       "bytes (read cursor never past the terminator, write cursor never past the read cursor, termination); every string up to length "
                       "4-5 over 8 significant bytes per format is then fed to the real decoders, the query parser, the INI-style and the Apache-style "
                       "parser in exactly-sized heap buffers under a watchdog, on the ledger build and on a clang ASan+UBSan build, plus grammar-aware "
                       "random documents (self/mutual ${} references, unbalanced quotes and brackets, trailing backslashes, over-long lines) and INI files "
                       "with @INCLUDE lines (missing, self- and mutually including files, lines padded around PATH_MAX) through qconfig_parse_file; TLC admits "
                       "no crash/timeout record and checks output length <= input length; each record is a distinct input")
    chk.assumptions.append("out-of-bounds reads that stay inside mapped memory are only visible to the ASan build (DESIGN.md section 7)")
