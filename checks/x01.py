"""X01 (not a listed property) - qtokenbucket is a rate limiter: TokenBucket.tla model-checked, every transition replayed on
the real code under a scripted clock, plus random schedules with large parameters."""
import os, json, random, subprocess
import vf, pipeline
LEVEL = "model_checking"
INVS = ["TypeOK", "RateLimited", "NoGain", "Sufficient", "NotExcessive"]


def fmt(op):
    return "%s %d" % (op["op"], op["n"])


def run_script(chk, exe, script, tag):
    wd = pipeline.workdir("tokbucket")
    trace = os.path.join(wd, "%s.ndjson" % tag)
    p = subprocess.run([exe, script, trace], capture_output=True, text=True, timeout=600)
    cfg = os.path.join(wd, "%s-trace.cfg" % tag)
    vf.write_cfg(cfg, init="TInit", next_="TNext", postcondition="Consumed")
    res = vf.validate("TokenBucketTrace", cfg, trace, timeout=900)
    n = vf.count_lines(trace)
    chk.cov["traces_validated_against_impl"] += 1
    chk.add_cases(n, distinct_n=n // 2)
    if res["infra"]:
        chk.infra.append("TokenBucketTrace %s: %s" % (tag, res["infra"]))
    for (l, txt) in res["rejects"][:3]:
        chk.violation("tokbucket:%s" % json.loads(txt).get("why", ["?"])[0] if txt.startswith("{") else "tokbucket:trace",
                      "trace %s rejected at event %d:\n%s" % (tag, l, txt[:2000]), dict(kind="tokbucket", script=open(script).read()[:20000]))
    if res["conform"]:
        chk.parts.setdefault("near_boundary_outcomes", {})[tag] = dict(accepted_either_way=res["conform"][0], events=res["conform"][1])
    if p.returncode != 0 and not res["rejects"]:
        chk.infra.append("tokbucket harness rc=%s: %s" % (p.returncode, p.stderr[-500:]))


def run(chk, tier, seed):
    rng = random.Random(seed)
    exe = vf.build("tokbucket", mode="plain", wraps=pipeline.default_wraps("plain") + ["gettimeofday"])
    wd = pipeline.workdir("tokbucket")
    models = [dict(InitT=0, MaxT=3, Rate=2, Dts={500, 1000}, Reqs={1, 2, 3}, Horizon=3000 if tier == "quick" else 6000),
              dict(InitT=2, MaxT=2, Rate=3, Dts={100, 333, 334}, Reqs={1, 2, 4}, Horizon=1000 if tier == "quick" else 1500),
              dict(InitT=5, MaxT=3, Rate=1, Dts={999, 1000, 1001}, Reqs={1, 3}, Horizon=4000 if tier == "quick" else 7000),
              dict(InitT=1, MaxT=10, Rate=1000, Dts={1, 2, 7}, Reqs={1, 5, 10}, Horizon=20 if tier == "quick" else 30)]
    for i, consts in enumerate(models):
        tag = "tb%d" % i
        r, edges = pipeline.model_run(chk, "tokbucket-" + tag, "TokenBucket", consts, workers=4, invariants=INVS,
                                      properties=["RefusalHarmless"], view="View")
        if not r.ok or not edges:
            continue
        segs, st = vf.tour(edges, maxseg=300)
        chk.add_cases(0, distinct_n=st["edges"]); chk.parts.setdefault("tours", {})[tag] = st
        if st["uncovered"]:
            chk.infra.append("tour of %s left %d edges uncovered" % (tag, st["uncovered"]))
        script = os.path.join(wd, "%s.script" % tag)
        with open(script, "w") as f:
            for seg in segs:
                f.write("init %d %d %d\n" % (consts["InitT"], consts["MaxT"], consts["Rate"]))
                for op in seg: f.write(fmt(op) + "\n")
        if i == 0: chk.sample(dict(model=tag, tour_segment=[fmt(o) for o in segs[0][:25]]))
        run_script(chk, exe, script, tag)
    # random schedules with large parameters (the values stay below the 32-bit arithmetic of TLC)
    script = os.path.join(wd, "rand.script")
    with open(script, "w") as f:
        for _ in range(40 if tier == "quick" else 400):
            rate = rng.choice([1, 2, 3, 7, 25, 50, 100, 333, 1000, 4999]); mx = rng.choice([1, 2, 10, 100, 1000, 100000])
            f.write("init %d %d %d\n" % (rng.choice([0, 1, mx, mx + 5, mx // 2]), mx, rate))
            for _ in range(300):
                r = rng.random()
                if r < 0.4: f.write("tick %d\n" % rng.choice([0, 1, 2, 3, 10, 580, 999, 1000, 1160, 2320, rng.randint(0, 20000)]))
                elif r < 0.8: f.write("consume %d\n" % rng.choice([0, 1, 1, 2, mx, mx + 1, rng.randint(0, mx + 1)]))
                else: f.write("wait %d\n" % rng.choice([1, 2, mx, mx + 1, rng.randint(0, mx + 1)]))
    run_script(chk, exe, script, "rand")
    chk.cov["exhaustive"] = not chk.infra
    chk.cov["rule"] = ("every transition of four TokenBucket.tla models (levels in exact thousandths of a token; invariants: rate limit, no tokens from "
                       "nowhere, the advertised waiting time is sufficient and not excessive; refused requests are harmless) replayed on the real "
                       "qtokenbucket under a scripted clock (gettimeofday wrapped) and judged by TokenBucketTrace.tla, plus random schedules with "
                       "large parameters; a case is one validated event")
    chk.assumptions.append("outcomes within 1e-6 token of a comparison boundary are accepted either way (the code computes elapsed*0.001*rate in doubles); they are counted in parts.near_boundary_outcomes")
    chk.assumptions.append("the clock never steps backwards")
