"""C03 - traversal returns every key exactly once in ascending order."""
import pipeline, tree_common


def run(chk, tier, seed):
    pipeline.run_container(chk, tier, seed, tree_common, owned={"walk"})
    chk.cov["exhaustive"] = not chk.infra
    chk.cov["rule"] = ("every transition of the TreeImpl.tla models (shape models over 8-12 keys; iterator models with per-node stamps, parent links, "
                       "epoch counter modulo 4 and client cursor over 3-5 keys) replayed on the real qtreetbl with the real 8-bit epoch counter advanced "
                       "to its wrap-around by API preludes, plus seeded random histories and walk bursts; decisive oracle for this property: 'walk' "
                       "conjunct of TreeTrace.tla; a case is one validated event; distinct = distinct model transitions + half of the random events")
