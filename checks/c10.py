"""C10 - qvector is an exact array of fixed-size elements under every growth policy."""
import os, random
import vf, pipeline
import vector_common


def run(chk, tier, seed):
    pipeline.run_container(chk, tier, seed, vector_common, owned={"result", "state"})
    chk.cov["exhaustive"] = not chk.infra
    chk.cov["rule"] = ("every transition of the Vector.tla model (all operations x every index in [-n-2,n+2] x values, "
                       "for each policy/initial capacity) replayed on the real qvector for several element sizes and "
                       "value profiles, plus seeded random histories to 300 elements; a case is one validated event; "
                       "distinct = distinct (model state, operation, arguments) transitions + distinct random events")
