"""C18 - hash functions equal their published algorithms for every input."""
import os
import vf, pipeline, refcheck
LEVEL = "exploration"


def run(chk, tier, seed):
    wd = pipeline.workdir("ref-hashes")
    if tier == "quick":
        lens = list(range(1, 41)) + [47, 48, 49, 55, 56, 57, 63, 64, 65, 119, 120, 121, 127, 128, 129, 255, 256, 257, 600]
    else:
        lens = list(range(1, 601)) + [1000, 4095, 4096, 4097, 70001]
    nsh = 16
    for mode in ("plain", "asan"):
        jobs = [dict(tag="h%d" % s, args=["gen", seed, s, nsh, os.path.join(wd, "scratch-%s-%d-%s.bin" % (mode, s, chk.pid)), "{out}"] + lens) for s in range(nsh)]
        refcheck.gen_and_validate(chk, "hashes", jobs, "HashTrace", mode=mode, threads=16, timeout=1500)
    chk.cov["exhaustive"] = False
    chk.cov["rule"] = ("for every length in the list (quick: 1..40 and every block/tail boundary of each algorithm up to 600; thorough: every length "
                       "1..600 plus larger sizes) x four content classes (random, all-zero, all-0xFF, embedded NULs) x five functions: the input is "
                       "hashed at buffer alignments 0..7 in exactly-sized heap buffers, twice with different surrounding bytes, on the plain and on "
                       "the ASan+UBSan build; MD5 also over byte ranges of a file; TLC evaluates MD5Ref/HashRef (RFC 1321 MD5, MurmurHash3 x86_32 / "
                       "x64_128, FNV-1 32/64, anchored to published vectors) on every record and requires all outputs to equal the reference; each "
                       "record is a distinct (function, input)")
