"""C05 - hash table is an exact map for every history and table range."""
import pipeline, hashtbl_common


def run(chk, tier, seed):
    pipeline.run_container(chk, tier, seed, hashtbl_common, owned={"result", "state"})
    chk.cov["exhaustive"] = not chk.infra
    chk.cov["rule"] = ("every transition of the HashTbl.tla model (ranges 1, 2, 3 with prescribed collision patterns; put/get/remove/clear/size/walk; "
                       "chains of every length and removals at head/middle/tail) replayed on the real qhashtbl with key strings searched for the required "
                       "home slots and four value kinds through the typed put/get front-ends, plus seeded random histories for ranges 1, 2, 7 and the default "
                       "1000; a case is one validated event; distinct = distinct model transitions + half of the random events")
