"""C16 - encoders and decoders are exact inverses and emit the standard formats."""
import os
import vf, pipeline, refcheck
LEVEL = "exploration"


def run(chk, tier, seed):
    wd = pipeline.workdir("ref-codec")
    # the reference definitions against themselves: ASSUMEd RFC vectors + round trip over all short strings
    cfg = os.path.join(wd, "self.cfg")
    vf.write_cfg(cfg, constants=dict(Bytes={0, 1, 61, 65, 127, 128, 254, 255}, MaxLen=4 if tier == "quick" else 5), invariants=["RoundTrip"])
    r = vf.tlc("CodecSelf", cfg, workers=4, timeout=900)
    chk.add_mc("CodecSelf", r); vf.tlc_cleanup(r)
    jobs = []
    nsh = 8
    for s in range(nsh):
        jobs.append(dict(tag="enum2-%d" % s, args=["enum", 2, "bhu", "{out}", s, nsh]))
    # random strings up to 4 KiB: several small files (ndJsonDeserialize holds a whole file in memory)
    nr = 1500 if tier == "quick" else 6000
    for s in range(8):
        jobs.append(dict(tag="rand%d" % s, args=["rand", nr // 8, 4096, seed * 8 + s, "{out}"]))
    if tier == "thorough":
        nsh3 = 64
        for s in range(nsh3):
            jobs.append(dict(tag="enum3-%d" % s, args=["enum", 3, "b", "{out}", s, nsh3]))
    refcheck.gen_and_validate(chk, "codec", jobs, "CodecTrace", threads=8, timeout=1800)
    chk.cov["exhaustive"] = not chk.infra
    chk.cov["rule"] = ("every byte string of length 0..2 over all 256 byte values (65 793 strings; all 16.8 M of length 3 for Base64 in thorough) and seeded "
                       "random strings up to 4 KiB in four content classes are encoded and decoded by the real qbase64/qhex/qurl functions, random "
                       "name/value lists are assembled into query strings and parsed back; TLC evaluates the reference definitions of Codec.tla on "
                       "every record (standard alphabet/padding, lowercase hex, URL-safety of every literal, exact round trip, alternate hex case and "
                       "'+'); each record is a distinct input")
