"""C12 - containers own private copies; returned copies are independent."""
import cross
LEVEL = "model_checking"


def run(chk, tier, seed):
    cross.run_cross(chk, tier, seed, owned={"copy", "result", "state", "crash"}, flagsets=[""], modes=["plain"])
    chk.cov["rule"] = ("the tours and random histories of the container models executed under the copy discipline: every key/value argument is passed in a "
                       "fresh exactly-sized buffer that is overwritten and released right after the call; every result of a copying accessor (newmem get, "
                       "pop, find-min/max, getnext with newmem, toarray, static-hash get) is retained, while freed container memory is poisoned and never "
                       "reused (quarantine), and re-identified byte-for-byte after later mutations and after the container is released; the specs store values "
                       "by value, so a container that kept a caller pointer or handed out an alias returns bytes that match no value id; a case is one "
                       "validated event")
