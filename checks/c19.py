"""C19 - string utilities compute exactly their documented function with bounded writes."""
import vf, pipeline, refcheck
LEVEL = "exploration"


def run(chk, tier, seed):
    ml = 3 if tier == "quick" else 4
    nsh = 16
    for mode in ("plain", "asanx"):
        jobs = [dict(tag="e%d" % s, args=["enum", ml, s, nsh, "{out}"]) for s in range(nsh)]
        jobs.append(dict(tag="rand", args=["rand", 60 if tier == "quick" else 400, seed, "{out}"]))
        jobs.append(dict(tag="misc", args=["misc", seed, "{out}"]))
        refcheck.gen_and_validate(chk, "strings", jobs, "StrTrace", mode=mode, threads=16, timeout=1500)
    chk.cov["exhaustive"] = not chk.infra
    chk.cov["rule"] = ("every string up to length 3 (quick) / 4 (thorough) over {space, tab, LF, CR, 'a', 'B', ',', '\"', 0xE9} and seeded random longer "
                       "strings: the three trims, unchar, the four replace modes x 5 token lists x 4 words, bounded copies for every buffer size 1..n+2 "
                       "and byte count 0..n, reversal, case conversion, tokenizer and qstrtokenizer with two delimiter sets, the line reader, "
                       "dup_between, formatted append/duplicate (every split of every string, results around 1024/2048/4096 characters), qmemdup, qstrtest with a "
                       "caller's class; mode misc: qstr_is_ip4addr on every 3/4-part (and sampled 5-part) combination of {0 1 255 256 '' a 01 99} and on one odd part among "
                       "valid ones, qstr_is_email on every string up to length 5 over {a 1 @ . - blank} and on local@domain pools (only the clear cases "
                       "decided), qstr_comma_number at every digit-count boundary, both int extremes and random values, qstrunique format; destination buffers are exactly sized between canaries; plain and ASan+UBSan builds; TLC evaluates the "
                       "StrRef.tla definitions on every record; each record is a distinct argument tuple")
