"""C20 - configuration parsers deliver exactly what the file says."""
import os, json, random, subprocess, shutil
import vf, pipeline
LEVEL = "model_checking"
UP = {"Listen": "LISTEN", "Flag": "FLAG", "Domain": "DOMAIN", "Host": "HOST", "TTL": "TTL2", "Mix": "MIX", "Pair": "PAIR", "Bogus": "BOGUS", "Five": "FIVE", "Many": "MANY", "Quiet": "QUIET", "Fail": "FAIL"}
TOKS = [("53", "int"), ("-7", "int"), ("1.5", "float"), ("On", "bool1"), ("off", "bool0"), ("YES", "bool1"), ("no", "bool0"), ("true", "bool1"),
        ("False", "bool0"), ("1", "int1"), ("0", "int0"), ("mail", "str"), ("a b", "str"), ("it's", "str"), ('say "hi"', "str"), (".5", "str"),
        ("5.", "str"), ("1.2.3", "str"), ("", "str"), ("x\\y", "str"), ("TRUE", "bool1"), ("OFF", "bool0"), ("Yes", "bool1"), ("No", "bool0"),
        # a sign needs digits behind it, and the rules about periods hold behind a sign too
        ("-", "str"), ("-.5", "str"), ("-5.", "str"), ("--5", "str"), ("5-", "str"), ("-0", "int"), ("-1.5", "float"), ("-1.2.3", "str"), ("- 5", "str")]


def tlc_docs(chk, module, maxlines, tag):
    wd = pipeline.workdir("cfg")
    cfg = os.path.join(wd, "%s.cfg" % tag)
    vf.write_cfg(cfg, constants=dict(MaxLines=maxlines), invariants=["Emit"])
    out = os.path.join(wd, "%s.out" % tag)
    r = vf.tlc(module, cfg, workers=4, timeout=900, outfile=out)
    docs = []
    with open(out, errors="replace") as f:
        for line in f:
            if line.startswith('"DOC '):
                docs.append(json.loads(json.loads(line)[4:]))
    chk.add_mc(tag, r, dict(documents=len(docs))); vf.tlc_cleanup(r)
    os.remove(out)
    return docs


# ---------------------------------------------------------------- Apache style
def rand_aconf(rng, n):
    def arg():
        t = rng.choice(TOKS); return {"txt": t[0], "kind": t[1]}
    def line(t, name, nargs):
        alt = rng.random() < 0.15 and name != "TTL"
        return {"t": t, "name": name, "alt": alt, "shown": UP[name] if alt else name, "args": [arg() for _ in range(nargs)]}
    def body(depth, out):
        for _ in range(rng.randint(0, 4)):
            r = rng.random()
            if r < 0.55:
                name = rng.choice(["Listen", "Flag", "TTL", "Mix", "Pair", "Bogus", "Five", "Many", "Quiet", "Fail"]) if rng.random() < 0.9 else rng.choice(["Domain", "Host"])
                k = {"Listen": 1, "Flag": 1, "TTL": 1, "Pair": 2, "Bogus": 1, "Domain": 1, "Host": 1, "Five": 5, "Many": rng.randint(3, 8), "Quiet": 1, "Fail": 1}.get(name, rng.randint(0, 4))
                if rng.random() < 0.1: k = max(0, k + rng.choice([-1, 1]))
                ln = line("opt", name, k)
                if name in ("Five", "Many") and rng.random() < 0.7:
                    # mostly well-typed arguments, so that a single ill-typed one (any position) decides the outcome
                    want = {"Five": ["int", "str", "float", "int", "bool"], "Many": ["bool"] * 8}[name]
                    pick = {"int": [t for t in TOKS if t[1] in ("int", "int1", "int0")], "float": [t for t in TOKS if t[1] in ("int", "float", "int1", "int0")],
                            "bool": [t for t in TOKS if t[1] in ("bool1", "bool0", "int1", "int0")], "str": TOKS}
                    for j, a in enumerate(ln["args"]):
                        if j < len(want) and rng.random() < 0.9:
                            t = rng.choice(pick[want[j]]); a["txt"], a["kind"] = t[0], t[1]
                if name == "Fail" and ln["args"] and rng.random() < 0.3: ln["args"][0] = {"txt": "bad", "kind": "str"}
                out.append(ln)
            elif r < 0.85 and depth < 3:
                name = rng.choice(["Domain", "Host"]) if rng.random() < 0.8 else rng.choice(["Listen", "Bogus", "Bogus"])
                o = line("open", name, 1 if rng.random() < 0.9 else 2); out.append(o); body(depth + 1, out)
                if rng.random() < 0.92:
                    c = line("close", name, 0); c["alt"] = o["alt"] if rng.random() < 0.9 else (not o["alt"] and name != "TTL")
                    c["shown"] = UP[name] if c["alt"] else name
                    if rng.random() < 0.05:
                        c["name"] = "Host" if name == "Domain" else "Domain"; c["shown"] = c["name"]; c["alt"] = False
                    out.append(c)
            elif rng.random() < 0.1:
                out.append(line("close", rng.choice(["Domain", "Host"]), 0))
    docs = []
    for _ in range(n):
        lines = []; body(0, lines)
        docs.append({"lines": lines, "ci": rng.random() < 0.5, "ignore": rng.random() < 0.4, "defh": rng.random() < 0.35})
    return docs


def well_defined(doc):
    """Unregistered sections together with a default handler are undocumented: such documents are not judged.  (Under ignore-unknown
    alone they are entered like registered ones, with a left-over section id: modelled in AconfRef.tla as the code behaves.)"""
    if not doc.get("defh"):
        return True
    return not any(l["t"] in ("open", "close") and (l["name"] == "Bogus" or (l["alt"] and not doc["ci"])) for l in doc["lines"])


def render_aconf(rng, doc):
    def q(tok):
        plain_ok = tok != "" and not any(c in tok for c in " \t'\"") and not tok.startswith(("<", "#"))
        style = rng.choice(["plain", "dq", "sq"]) if plain_ok else rng.choice(["dq", "sq"])
        if style == "plain": return tok
        qc = '"' if style == "dq" else "'"
        return qc + tok.replace("\\", "\\\\").replace(qc, "\\" + qc) + qc
    out, m = [], {}
    for j, ln in enumerate(doc["lines"]):
        while rng.random() < 0.2: out.append(rng.choice(["", "# comment", "   ", "\t# x"]))
        words = [ln["shown"]] + [q(a["txt"]) for a in ln["args"]]
        body = rng.choice([" ", "  ", "\t"]).join(words)
        if ln["t"] == "open": body = "<" + body + ">"
        elif ln["t"] == "close": body = "</" + body + ">"
        out.append(rng.choice(["", " ", "    ", "\t"]) + body + rng.choice(["", " "]))
        m[len(out)] = j + 1
    return "\n".join(out) + ("\n" if out else ""), m


def run_aconf(chk, exe, docs, rng, tag, renderings):
    wd = pipeline.workdir("cfg")
    ddir = os.path.join(wd, "aconf-%s-%s" % (tag, chk.pid))
    shutil.rmtree(ddir, ignore_errors=True); os.makedirs(ddir)
    items = []
    with open(os.path.join(ddir, "list.txt"), "w") as lf:
        for i, d in enumerate(docs):
            for r in range(renderings):
                text, m = render_aconf(rng, d)
                p = os.path.join(ddir, "%d-%d.conf" % (i, r))
                with open(p, "w") as f: f.write(text)
                lf.write("%d %s\n" % ((1 if d["ci"] else 0) | (2 if d["ignore"] else 0) | (4 if d.get("defh") else 0), p))
                items.append((d, m, text))
    out = os.path.join(ddir, "obs.ndjson")
    p = subprocess.run([exe, "aconf", os.path.join(ddir, "list.txt"), out], capture_output=True, text=True, timeout=3000)
    obs = [json.loads(l) for l in open(out)] if os.path.exists(out) else []
    trace = os.path.join(ddir, "trace.ndjson")
    with open(trace, "w") as f:
        for (d, m, text), o in zip(items, obs):
            if "cbs" not in o:
                f.write(json.dumps({"fn": o.get("op", "crash"), "where": "aconf", "text": text}) + "\n"); break
            errline = 0
            if o["ret"] < 0:
                # physical line -> abstract line (the last directive at or before it)
                errline = max([v for k, v in m.items() if k <= o["physline"]] or [0])
            f.write(json.dumps({"fn": "aconf", "doc": d, "ret": o["ret"], "errline": errline, "cbs": o["cbs"], "text": text[:400]}) + "\n")
        if p.returncode != 0 and len(obs) < len(items):
            f.write(json.dumps({"fn": "crash", "where": "aconf", "sig": p.returncode, "text": items[len(obs)][2][:400]}) + "\n")
    finish(chk, "AconfTrace", dict(PinnedBool=False), trace, "aconf-" + tag, ddir)


# ---------------------------------------------------------------- INI style
def rand_ini(rng, n):
    names = ["a", "b", "key", "long.name", "x1"]
    docs = []
    for _ in range(n):
        lines = []; defined = set(); sec = ""
        for _ in range(rng.randint(0, 9)):
            r = rng.random()
            if r < 0.12: lines.append({"t": "comment", "name": "", "parts": []})
            elif r < 0.2: lines.append({"t": "blank", "name": "", "parts": []})
            elif r < 0.35:
                s = rng.choice(["sec", "S2", "", "web"]); lines.append({"t": "section", "name": s, "parts": []}); sec = s
                if s: defined.add(s + ".")
            else:
                name = rng.choice(names); parts = []
                for _ in range(rng.randint(1, 3)):
                    k = rng.random()
                    if k < 0.5: parts.append({"k": "lit", "txt": rng.choice(["1", "two words", "/path/x", "p=q", "#h", "v", "a.b", "100%"])})
                    elif k < 0.8:
                        ref = rng.choice(sorted(defined)) if defined and rng.random() < 0.8 else "undef.name"
                        parts.append({"k": "var", "txt": ref})
                    else: parts.append({"k": "env", "txt": rng.choice(["QV_HOME", "QV_UNSET", "QV_X"])})
                # a value must not start or end with a blank (values are trimmed) and not be empty of content
                if parts[0]["k"] == "lit": parts[0]["txt"] = parts[0]["txt"].lstrip() or "z"
                lines.append({"t": "entry", "name": name, "parts": parts})
                defined.add((sec + "." if sec else "") + name)
        docs.append(lines)
    return docs


def ini_ok(doc):
    """Keep documents whose meaning the reference fixes: a referenced name that is undefined at its line must never be
    defined (re-expansion of a stored '${x}' is outside the reference), and no value may end up empty/blank-edged."""
    defined = set(); sec = ""; undefined_refs = set()
    for l in doc:
        if l["t"] == "section":
            sec = l["name"]
            if sec: defined.add(sec + ".")
        elif l["t"] == "entry":
            for p in l["parts"]:
                if p["k"] == "var" and p["txt"] not in defined: undefined_refs.add(p["txt"])
            defined.add((sec + "." if sec else "") + l["name"])
    return not (undefined_refs & defined)


def render_ini(rng, doc):
    out = []
    for l in doc:
        ind = rng.choice(["", " ", "\t", "   "])
        if l["t"] == "comment": out.append(ind + rng.choice(["# a comment", "#", "# key=value", "#[sec]"]))
        elif l["t"] == "blank": out.append(rng.choice(["", "   ", "\t"]))
        elif l["t"] == "section": out.append(ind + "[" + rng.choice(["", " "]) + l["name"] + rng.choice(["", " "]) + "]" + rng.choice(["", "  "]))
        else:
            val = "".join(p["txt"] if p["k"] == "lit" else "${" + p["txt"] + "}" if p["k"] == "var" else "${%" + p["txt"] + "}" for p in l["parts"])
            out.append(ind + l["name"] + rng.choice(["=", " = ", "= ", " ="]) + val + rng.choice(["", " ", "\t"]))
    return "\n".join(out) + rng.choice(["\n", "", "\n\n"])


ENV = {"QV_HOME": "/home/qv", "QV_X": "x y"}


def run_ini(chk, exe, docs, rng, tag, renderings):
    wd = pipeline.workdir("cfg")
    ddir = os.path.join(wd, "ini-%s-%s" % (tag, chk.pid))
    shutil.rmtree(ddir, ignore_errors=True); os.makedirs(ddir)
    items = []
    with open(os.path.join(ddir, "list.txt"), "w") as lf:
        for i, d in enumerate(docs):
            for r in range(renderings):
                text = render_ini(rng, d)
                p = os.path.join(ddir, "%d-%d.ini" % (i, r))
                with open(p, "w") as f: f.write(text)
                lf.write(p + "\n"); items.append((d, text))
    out = os.path.join(ddir, "obs.ndjson")
    env = dict(os.environ); env.update(ENV); env.pop("QV_UNSET", None)
    p = subprocess.run([exe, "ini", os.path.join(ddir, "list.txt"), out], capture_output=True, text=True, timeout=3000, env=env)
    obs = [json.loads(l) for l in open(out)] if os.path.exists(out) else []
    trace = os.path.join(ddir, "trace.ndjson")
    with open(trace, "w") as f:
        for (d, text), o in zip(items, obs):
            if "entries" not in o:
                f.write(json.dumps({"fn": o.get("op", "crash"), "where": "ini", "text": text}) + "\n"); break
            f.write(json.dumps({"fn": "ini", "doc": d, "env": [[k, v] for k, v in ENV.items()], "entries": o["entries"], "text": text[:400]}) + "\n")
        if p.returncode != 0 and len(obs) < len(items):
            f.write(json.dumps({"fn": "crash", "where": "ini", "sig": p.returncode, "text": items[len(obs)][1][:400]}) + "\n")
    finish(chk, "IniRef", {}, trace, "ini-" + tag, ddir)


def finish(chk, module, consts, trace, tag, ddir):
    n = vf.count_lines(trace)
    if n == 0:
        chk.infra.append("no records for %s" % tag); return
    cfg = os.path.join(ddir, "trace.cfg")
    vf.write_cfg(cfg, constants=consts, init="Init", next_="Next", postcondition="Consumed")
    res = vf.validate(module, cfg, trace, timeout=1500)
    if res["infra"]:
        chk.infra.append("validation %s: %s" % (tag, res["infra"])); return
    for k, (l, txt) in enumerate(res["rejects"][:4]):
        try:
            ev = json.loads(txt).get("ev", {})
        except Exception:
            ev = {}
        chk.violation("cfg:%s:%s" % (tag.split("-")[0], json.dumps(ev.get("doc", ev.get("text", "")))[:120]),
                      "document %d of %s rejected:\n%s" % (l, tag, txt[:3000]), dict(kind="document", module=module, record=ev))
    chk.cov["traces_validated_against_impl"] += n
    chk.add_cases(n, distinct_n=n)
    if len(chk.cov["samples"]) < 4:
        with open(trace) as f:
            chk.sample(dict(job=tag, record=json.loads(f.readline()).get("text", "")[:300]))
    if not res["rejects"]:
        shutil.rmtree(ddir, ignore_errors=True)


def run(chk, tier, seed):
    rng = random.Random(seed)
    exe = vf.build("cfgparse", mode="plain", wraps=pipeline.default_wraps("plain"))
    # documents generated exhaustively by TLC from line pools, and seeded random larger ones
    adocs = [d for d in tlc_docs(chk, "AconfGen", 3 if tier == "quick" else 4, "AconfGen") if well_defined(d)]
    if tier == "quick" and len(adocs) > 2500: adocs = rng.sample(adocs, 2500)
    if len(adocs) > 80000: adocs = rng.sample(adocs, 80000)
    run_aconf(chk, exe, adocs, rng, "tlc", 1 if tier == "quick" else 2)
    run_aconf(chk, exe, [d for d in rand_aconf(rng, 1500 if tier == "quick" else 8000) if well_defined(d)], rng, "rand", 2)
    idocs = [d for d in tlc_docs(chk, "IniGen", 3 if tier == "quick" else 4, "IniGen") if ini_ok(d)]
    run_ini(chk, exe, idocs, rng, "tlc", 2)
    run_ini(chk, exe, [d for d in rand_ini(rng, 1500 if tier == "quick" else 8000) if ini_ok(d)], rng, "rand", 2)
    chk.cov["exhaustive"] = False
    chk.cov["rule"] = ("TLC generates every abstract document of up to 3-4 lines over pools of directive shapes (all boolean spelling classes, typed "
                       "arguments, sections, mismatched closes, unknown and wrongly-cased names x parser flags; INI: comments, blanks, sections, "
                       "entries with literal/${name}/${%ENV} parts), seeded random larger documents are added; the harness renders each to text "
                       "with varied quoting, escapes, whitespace and comment placement and runs the real parser; TLC evaluates AconfRef!Expect / "
                       "IniRef!Eval on every abstract document and compares return value, failing line, the complete callback stream and the "
                       "entry list; each record is a distinct (document, rendering)")
