"""C04 - nearest-key search: floor semantics, history independent, terminates."""
import pipeline, tree_common


def run(chk, tier, seed):
    pipeline.run_container(chk, tier, seed, tree_common, owned={"nearest"})
    # "always terminates" has a second reader: a search that returns while keeping the table's lock never lets another thread's
    # search return.  The iterator models again on thread-safe tables, owning the lock balance of the search calls.
    pipeline.run_container(chk, "cross" if tier == "quick" else "quick", seed + 2, tree_common, owned={"nearest", "lock"}, flagsets=["t"],
                           threads=4, model_filter=lambda m: m["tag"].startswith("iter"), random_tier="cross")
    chk.cov["exhaustive"] = not chk.infra
    chk.cov["rule"] = ("every transition of the TreeImpl.tla models (shape models over 8-12 keys; iterator models with per-node stamps, parent links, "
                       "epoch counter modulo 4 and client cursor over 3-5 keys) replayed on the real qtreetbl with the real 8-bit epoch counter advanced "
                       "to its wrap-around by API preludes, plus seeded random histories and walk bursts; decisive oracle for this property: 'nearest' "
                       "conjunct of TreeTrace.tla; a case is one validated event; distinct = distinct model transitions + half of the random events")
