"""C15 - allocation failure is reported and leaves containers unchanged and valid."""
import cross
LEVEL = "fault_enumeration"


def run(chk, tier, seed):
    cross.run_cross(chk, tier, seed, owned={"enomem", "leak", "badfree", "crash", "timeout", "valid", "image"}, flagsets=(["a", "tf"] if tier == "quick" else ["a", "f", "ta", "tf"]), modes=["plain"])
    chk.cov["rule"] = ("for every transition of the container models whose operation allocates (and every constructor): the call is repeated with the "
                       "1st, 2nd, ... allocation inside it failing (flag a: single failure; flag f: all subsequent fail) until it completes; after each "
                       "attempt the full observable state is logged and the trace specification admits only 'completed normally' or 'reported failure and "
                       "left contents/counters exactly as before', with structural invariants holding, no block leaked at release, no double free, no crash; "
                       "a case is one attempted call; distinct = distinct model transitions x failure positions + half of the random events")
