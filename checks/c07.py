"""C07 - static hash table image is self-contained, relocatable and always well-formed."""
import pipeline, hasharr_common


def run(chk, tier, seed):
    pipeline.run_container(chk, tier, seed, hasharr_common, owned={"image", "reloc", "guard"})
    chk.cov["exhaustive"] = not chk.infra
    chk.cov["rule"] = ("same model runs and replays as C06; decisive here: TLC evaluates WellFormed on the raw image decoded from the region after every "
                       "call (invariant of all reachable model images), Abs(image) equals the ideal map, all observations repeated through a second handle "
                       "attached to a byte-for-byte copy at another address/alignment while the original region is PROT_NONE are identical, operation "
                       "continues on the copy every third step, and the canaries around the region are intact")
