"""C08 - list table is an exact ordered multimap under every option combination."""
import pipeline, listtbl_common


def run(chk, tier, seed):
    pipeline.run_container(chk, tier, seed, listtbl_common, owned={"result", "state"}, threads=8)
    chk.cov["exhaustive"] = not chk.infra
    chk.cov["rule"] = ("for each of the 16 option sets, every transition of the ListTbl.tla model (put, get, getmulti, remove, removal of the current "
                       "element during a walk, full and name-filtered walks, size, stable sort, clear, save+load; keys differing only in case; sequences "
                       "up to length 3/4) replayed on the real qlisttbl through the typed put/get front-ends with printable and non-printable string "
                       "values, plus seeded random histories; a case is one validated event; distinct = distinct model transitions + half of the random events")
