"""C13 - the thread-safe option makes concurrent use linearizable."""
import os, json, random, subprocess, re
from concurrent.futures import ThreadPoolExecutor
import vf, pipeline

LEVEL = "model_checking"
# model kind -> (program names in MC_Conc, real container kinds, NK, walk compared as a set)
MODELS = {
    "seq": (["PS1", "PS2", "PS3", "PS4"], ["vector", "list"], 2),
    "seq-q": (["PQ1"], ["queue"], 2),
    "seq-k": (["PK1"], ["stack"], 2),
    "map": (["PM1", "PM2"], ["hashtbl", "treetbl"], 2),
    "mmap": (["PL1"], ["listtbl"], 2),
    "umap": (["PU1", "PU2"], ["listtblu"], 2),
}
PROGS = {
    "PS1": [[("addlast", 1, 0), ("popfirst", 0, 0)], [("addlast", 2, 0)], [("toarray", 0, 0)]],
    "PS2": [[("addlast", 1, 0), ("getat", 0, 0)], [("addlast", 2, 0)], [("popfirst", 0, 0)]],
    "PS3": [[("addfirst", 1, 0), ("poplast", 0, 0)], [("addlast", 2, 0), ("clear", 0, 0)]],
    "PS4": [[("addlast", 1, 0)], [("addlast", 2, 0)], [("addlast", 3, 0)], [("toarray", 0, 0)]],
    "PQ1": [[("addlast", 1, 0), ("popfirst", 0, 0)], [("addlast", 2, 0), ("getat", 0, 0)], [("popfirst", 0, 0)]],
    "PK1": [[("addfirst", 1, 0), ("popfirst", 0, 0)], [("addfirst", 2, 0), ("getat", 0, 0)], [("clear", 0, 0)]],
    "PM1": [[("put", 1, 1), ("get", 2, 0)], [("put", 2, 2), ("remove", 1, 0)], [("walk", 0, 0)]],
    "PM2": [[("put", 1, 1), ("put", 1, 2)], [("get", 1, 0), ("remove", 1, 0)], [("clear", 0, 0)]],
    "PL1": [[("put", 1, 1), ("get", 1, 0)], [("put", 1, 2), ("remove", 1, 0)], [("walk", 0, 0)]],
    "PU1": [[("put", 1, 1), ("get", 1, 0)], [("put", 1, 2)], [("put", 1, 3), ("walk", 0, 0)]],
    "PU2": [[("put", 1, 1), ("put", 2, 1)], [("put", 1, 2), ("remove", 1, 0)], [("walk", 0, 0)]],
}


def lincheck(chk, kind_model, real, hist_file, tag, workers=4):
    """Run LinCheck.tla over a history file; returns (n histories, list of non-linearizable indexes)."""
    wd = pipeline.workdir("conc")
    cfg = os.path.join(wd, "lin-%s.cfg" % tag)
    vf.write_cfg(cfg, constants=dict(Kind=kind_model.split("-")[0], NK=3, SetWalk=(real == "hashtbl")), init="Init", next_="Next")
    out = os.path.join(wd, "lin-%s.out" % tag)
    n = vf.count_lines(hist_file)
    if n == 0:
        chk.infra.append("no histories recorded for %s" % tag); return 0, []
    # the library "forces" a lock open after MAX_MUTEX_LOCK_WAIT failed attempts.  Under the deterministic scheduler no thread ever
    # waits for another one, so a forced unlock there means a thread could not re-enter a lock it holds itself (a walk under the
    # caller's lock calls locking methods): mutual exclusion is gone from that moment.  (Free-running stress: recorded only.)
    nforced = 0
    with open(hist_file) as f:
        for i, line in enumerate(f, 1):
            m = re.search(r'"forced":(\d+)', line)
            if m and int(m.group(1)) > 0:
                nforced += 1
                if tag.startswith("P") and nforced <= 2:
                    chk.violation("conc:%s:forced-unlock" % real, "history %d of %s (%s): the container's lock was forced open %s time(s) although no other "
                                  "thread was holding it (nested acquisition by the holder failed):\n%s" % (i, tag, real, m.group(1), line[:1500]),
                                  dict(kind="forced", container=real, history=json.loads(line)))
    if nforced: chk.parts.setdefault("forced_unlocks", {})[tag] = nforced
    r = vf.tlc("LinCheck", cfg, workers=workers, env={"TRACE": hist_file}, timeout=1500, outfile=out, heap="6g")
    ok = set()
    with open(out, errors="replace") as f:
        for line in f:
            m = re.match(r'"LINOK (\d+)"', line)
            if m: ok.add(int(m.group(1)))
    if not r.ok:
        chk.infra.append("LinCheck run %s failed rc=%s: %s" % (tag, r.rc, "\n".join(r.lines[-12:])))
        vf.tlc_cleanup(r)
        return n, []
    vf.tlc_cleanup(r)
    os.remove(out)
    bad = [i for i in range(1, n + 1) if i not in ok]
    chk.cov["traces_validated_against_impl"] += n
    chk.add_cases(n, distinct_n=n)
    return n, bad


def report_bad(chk, real, hist_file, bad, tag, extra):
    with open(hist_file) as f:
        lines = f.readlines()
    for i in bad[:5]:
        h = json.loads(lines[i - 1])
        sig = "conc:%s:%s" % (real, tag)
        chk.violation(sig + ":%d" % i, "history %d of %s (%s) is not linearizable:\n%s" % (i, tag, real, json.dumps(h)[:3000]),
                      dict(kind="history", container=real, history=h, **extra))


def lock_protocol(chk, tier, wd, exe):
    """Mutex.tla model-checked, and bound to the code: the two-thread scenario of `conc mutex` validated by MutexTrace.tla.  Shared with
    C14: a release the library swallows leaves the lock held when the call returns."""
    # 0. the lock protocol itself (Q_MUTEX_ENTER/LEAVE as written, incl. the force-unlock path)
    cfg = os.path.join(wd, "mutex.cfg")
    vf.write_cfg(cfg, constants=dict(Threads={1, 2, 3}, MaxSpin=2, MaxDepth=2, Recursive=True), invariants=["MutualExclusion", "DepthMatches"])
    r = vf.tlc("Mutex", cfg, workers=4, timeout=600)
    chk.add_mc("Mutex", r); vf.tlc_cleanup(r)
    # ... and its binding to the code: a two-thread scenario that forces the spin / force-unlock path, every trylock attempt,
    # acquisition, forced and regular release validated as a step of Mutex.tla (MutexTrace.tla)
    spin = 5000
    try:
        m = re.search(r"#define\s+MAX_MUTEX_LOCK_WAIT\s+\((\d+)\)", open(os.path.join(vf.REPO, "src/internal/qinternal.h")).read())
        if m: spin = int(m.group(1))
    except OSError:
        pass
    mtrace = os.path.join(wd, "mutex.ndjson")
    p = subprocess.run([exe, "mutex", "6" if tier == "quick" else "30", mtrace], capture_output=True, text=True, timeout=900)
    if p.returncode != 0 or not os.path.exists(mtrace):
        chk.violation("mutex:crash", "the lock-protocol scenario died or did not finish (rc=%s; 3 = its watchdog: a thread waited for the lock "
                      "beyond every forced unlock): %s" % (p.returncode, p.stderr[-1500:]), dict(kind="mutex"))
        # a scenario that spins until its watchdog logs every failed attempt: gigabytes; keep the head only
        if os.path.exists(mtrace) and os.path.getsize(mtrace) > 50 * 1024 * 1024:
            with open(mtrace, "rb") as f: headbytes = f.read(200000)
            with open(mtrace, "wb") as f: f.write(headbytes[:headbytes.rfind(b"\n") + 1])
    else:
        cfg = os.path.join(wd, "mutextrace.cfg")
        vf.write_cfg(cfg, constants=dict(Threads={1, 2}, MaxSpin=spin, MaxDepth=2, Recursive=True), init="TInit", next_="TNext",
                     invariants=["MutualExclusion", "DepthMatches"], postcondition="Consumed")
        res = vf.validate("MutexTrace", cfg, mtrace, timeout=900)
        if res["infra"]:
            chk.infra.append("MutexTrace: " + res["infra"])
        for (l, txt) in res["rejects"][:3]:
            chk.violation("mutex:protocol", "lock event %d is not a step of Mutex.tla:\n%s" % (l, txt[:2000]), dict(kind="mutex", line=l))
        if not res["rejects"] and not res["accepted"] and not res["infra"]:
            chk.violation("mutex:invariant", "Mutex.tla invariant violated along the recorded lock trace", dict(kind="mutex"))
        chk.cov["traces_validated_against_impl"] += 1
        chk.add_cases(vf.count_lines(mtrace), distinct_n=1)



def run(chk, tier, seed):
    rng = random.Random(seed)
    wd = pipeline.workdir("conc")
    exe = vf.build("conc", mode="plain", wraps=pipeline.default_wraps("plain"))
    lock_protocol(chk, tier, wd, exe)
    # 1. all interleavings of the client programs at block granularity: design-level linearizability + schedule export
    jobs = []
    for km, (progs, reals, nk) in MODELS.items():
        for pn in progs:
            cfg = os.path.join(wd, "conc-%s.cfg" % pn)
            vf.write_cfg(cfg, constants=dict(Kind=km.split("-")[0], NK=nk, PreReads=False), subst=dict(Prog=pn), invariants=["Linearizable", "Schedules"])
            out = os.path.join(wd, "conc-%s.out" % pn)
            r = vf.tlc("MC_Conc", cfg, workers=8, timeout=1200, outfile=out, heap="8g")
            scheds = []
            with open(out, errors="replace") as f:
                for line in f:
                    if line.startswith('"SCHED '):
                        scheds.append(json.loads(json.loads(line)[6:]))
            chk.add_mc("Conc-%s" % pn, r, dict(schedules=len(scheds), kind=km.split("-")[0])); vf.tlc_cleanup(r)
            os.remove(out)
            if not r.ok or not scheds:
                continue
            # unique schedules only (a terminal state is reached by exactly one schedule, but keep it robust)
            uniq = sorted(set(tuple(s) for s in scheds))
            take = uniq if tier == "thorough" or len(uniq) <= 1500 else rng.sample(uniq, 1500)
            progf = os.path.join(wd, "%s.prog" % pn)
            with open(progf, "w") as f:
                for thr in PROGS[pn]:
                    f.write(" ; ".join("%s %d %d" % o for o in thr) + "\n")
            schedf = os.path.join(wd, "%s.sched" % pn)
            with open(schedf, "w") as f:
                for s in take: f.write(" ".join(map(str, s)) + "\n")
            if len(chk.cov["samples"]) < 2:
                chk.sample(dict(program=pn, threads=PROGS[pn], schedule=list(take[0])))
            for real in reals:
                jobs.append((km, real, pn, progf, schedf, len(take)))

    def replay(job):
        km, real, pn, progf, schedf, n = job
        hist = os.path.join(wd, "hist-%s-%s.ndjson" % (pn, real))
        try:
            p = subprocess.run([exe, "sched", real, progf, schedf, hist], capture_output=True, text=True, timeout=900)
        except subprocess.TimeoutExpired:
            chk.violation("conc:%s:%s:hang" % (real, pn), "deterministic replay of %s on %s did not finish within 900 s (it takes seconds): a thread "
                          "waits for a lock that is never released, or locks are forced open over and over" % (pn, real),
                          dict(kind="sched", container=real, program=pn))
            return
        if p.returncode != 0:
            chk.violation("conc:%s:%s:crash" % (real, pn), "deterministic replay of %s on %s died (rc=%s): %s" % (pn, real, p.returncode, p.stderr[-1500:]),
                          dict(kind="sched", container=real, program=pn))
            return
        n, bad = lincheck(chk, km, real, hist, "%s-%s" % (pn, real))
        report_bad(chk, real, hist, bad, "sched-%s" % pn, dict(program=PROGS[pn]))
        if not bad: os.remove(hist)

    with ThreadPoolExecutor(4) as ex:
        list(ex.map(replay, jobs))

    # 2. free-running stress in barrier-separated rounds (snapshot at every quiescent point), plain and TSan builds
    rounds = 1200 if tier == "quick" else 8000
    tsan = vf.build("conc", mode="tsan", wraps=[])
    sjobs = []
    for km, (progs, reals, nk) in MODELS.items():
        for real in reals:
            sjobs.append((km, real))

    def races_in(real, stderr, seen):
        races = re.findall(r"WARNING: ThreadSanitizer: data race.*?(?=\n\n|\Z)", stderr, flags=re.S)
        for rep in races:
            fn = re.findall(r"#0 (\S+)", rep)
            key = ",".join(sorted(set(fn[:2])))
            if key in seen: continue
            seen.add(key)
            chk.violation("race:%s:%s" % (real, key), "ThreadSanitizer reports a data race on %s state (stress run):\n%s" % (real, rep[:2500]),
                          dict(kind="tsan", container=real))
        return len(races)

    def stress(job):
        km, real = job
        seen = set()
        for mode, binary in (("plain", exe), ("tsan", tsan)):
            hist = os.path.join(wd, "stress-%s-%s.ndjson" % (real, mode))
            env = dict(os.environ, TSAN_OPTIONS="exitcode=0:halt_on_error=0:report_signal_unsafe=0")
            p = subprocess.run([binary, "stress", real, "4", "3", str(rounds if mode == "plain" else rounds // 2), str(seed), hist],
                               capture_output=True, text=True, timeout=900, env=env)
            if p.returncode != 0:
                chk.violation("conc:%s:stress-crash" % real, "stress run on %s (%s) died rc=%s: %s" % (real, mode, p.returncode, p.stderr[-1500:]),
                              dict(kind="stress", container=real, mode=mode))
                continue
            if mode == "tsan":
                chk.parts.setdefault("tsan_runs", {})[real] = dict(reports=races_in(real, p.stderr, seen))
            n, bad = lincheck(chk, km, real, hist, "stress-%s-%s" % (real, mode))
            report_bad(chk, real, hist, bad, "stress-%s" % mode, dict(mode=mode))
            if not bad: os.remove(hist)

        # long unbarriered bursts on the race-detecting build: too long to decide linearizability, judged by the race detector alone
        # (a race that loses no update in the schedules tried is visible to nothing else, and short rounds on a busy machine run
        # almost one thread at a time)
        hist = os.path.join(wd, "dense-%s.ndjson" % real)
        env = dict(os.environ, TSAN_OPTIONS="exitcode=0:halt_on_error=0:report_signal_unsafe=0")
        try:
            p = subprocess.run([tsan, "stress", real, "4", "40", str(40 if tier == "quick" else 400), str(seed + 1), hist],
                               capture_output=True, text=True, timeout=900, env=env)
        except subprocess.TimeoutExpired:
            chk.violation("conc:%s:stress-hang" % real, "dense stress run on %s did not finish within 900 s" % real, dict(kind="stress", container=real, mode="tsan-dense"))
            return
        if p.returncode != 0:
            chk.violation("conc:%s:stress-crash" % real, "dense stress run on %s died rc=%s: %s" % (real, p.returncode, p.stderr[-1500:]),
                          dict(kind="stress", container=real, mode="tsan-dense"))
        else:
            chk.parts.setdefault("tsan_dense_runs", {})[real] = dict(reports=races_in(real, p.stderr, seen), operations=4 * 40 * (40 if tier == "quick" else 400))
        if os.path.exists(hist): os.remove(hist)

    with ThreadPoolExecutor(5) as ex:
        list(ex.map(stress, sjobs))
    chk.cov["exhaustive"] = not chk.infra and tier == "thorough"
    chk.cov["rule"] = ("TLC explores every interleaving of small client programs (2-4 threads, 1-2 operations each on shared keys/positions) at the "
                       "granularity pre-lock block / critical section / post-unlock block and checks linearizability of each terminal history; the "
                       "schedule of every terminal state is replayed on the real thread-safe containers by a deterministic scheduler (scheduling points: "
                       "call boundary, before an outermost lock acquisition, after an outermost release) and each recorded history is decided by "
                       "LinCheck.tla; free-running 4-thread stress in barrier-separated rounds of 12 operations with a full snapshot at every barrier is "
                       "decided the same way and repeated on a ThreadSanitizer build; a case is one history")
    chk.assumptions.append("'no data race' below block granularity rests on the ThreadSanitizer build of the stress driver (DESIGN.md section 7)")
