"""C09 - list, queue, stack and grow buffer are exact sequences."""
import pipeline, list_common


def run(chk, tier, seed):
    pipeline.run_container(chk, tier, seed, list_common, owned={"result", "state"})
    chk.cov["exhaustive"] = not chk.infra
    chk.cov["rule"] = ("every transition of the List.tla model (all list operations x every index in [-n-2,n+2] x three value kinds "
                       "x size limits; queue/stack/grow front-ends as instances) replayed on the real qlist/qqueue/qstack/qgrow under "
                       "several byte profiles, plus seeded random histories to 500 elements; a case is one validated event; distinct = "
                       "distinct model transitions + half of the random events (conservative)")
