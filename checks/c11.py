"""C11 - containers are memory-safe and leak-free for every operation history."""
import cross
LEVEL = "model_checking"


def run(chk, tier, seed):
    # ledger / overlap monitor / quarantine build: leaks at release, double or invalid frees, overlapping copies, guard canaries
    cross.run_cross(chk, tier, seed, owned={"leak", "overlap", "badfree", "guard", "crash"}, flagsets=["", "t"] if tier == "thorough" else [""],
                    modes=["plain", "asan"])
    # a call during which an allocation fails is a valid call too: the same tours with every allocation inside each call failing once,
    # on the ledger build (a live block freed on an error path is then written to or read from quarantined memory, or freed twice)
    cross.run_cross(chk, tier, seed + 3, owned={"leak", "overlap", "badfree", "guard", "crash"}, flagsets=["a"], modes=["plain"], do_random=False)
    chk.cov["rule"] = ("the tours (every model transition) and random histories of C01-C10 re-executed (a) on the ledger build: --wrap allocator ledger "
                       "with quarantine (freed blocks poisoned and never reused, a second free is seen), overlap monitor on memcpy/strcpy/strncpy, canaries "
                       "around the static hash region, the tours once more with every allocation inside each call failing once; (b) on a clang ASan+UBSan+LSan build with exactly-sized heap buffers for all caller data. The trace "
                       "specifications admit no leak at release, no bad free, no overlapping copy and no crash event; a case is one validated event")
    chk.assumptions.append("under-runs before a block, stack/global overruns and the remaining undefined-behaviour classes are decided by the clang "
                           "sanitizer build, whose abort is relayed to TLC as a crash event (DESIGN.md section 7)")
