"""C14 - every operation returns with the container lock released."""
import os
import cross, refcheck, pipeline, vf
from checks import c13
LEVEL = "fault_enumeration"


def run(chk, tier, seed):
    cross.run_cross(chk, tier, seed, owned={"lock"}, flagsets=["t", "ta"] + (["tf"] if tier == "thorough" else []), modes=["plain"],
                    containers=cross.LOCKABLE)
    # "another thread's next operation always completes": the lock protocol with two threads, one of which holds the lock long enough for
    # the other to go through the forced-unlock path; afterwards the holder's own release must still release (MutexTrace.tla)
    c13.lock_protocol(chk, tier, pipeline.workdir("conc14"), vf.build("conc", mode="plain", wraps=pipeline.default_wraps("plain")))
    # the fifth lock user: the logger
    wd = pipeline.workdir("qlog")
    jobs = [dict(tag="qlog-%s" % (fl.strip("-") or "n"), args=[30 if tier == "quick" else 200, seed, wd, fl, "{out}"]) for fl in ("-", "a", "f")]
    refcheck.gen_and_validate(chk, "qlogdrv", jobs, "LockBalanceTrace", threads=3)
    chk.cov["rule"] = ("every transition of the container models (all operations x all outcome classes the specs distinguish: success, invalid index, "
                       "missing key, empty, full) replayed on containers created with the *_THREADSAFE option, once plainly and once with every allocation "
                       "inside each call made to fail in turn; the lock tracer (--wrap=pthread_mutex_trylock/lock/unlock) reports the lock depth delta of "
                       "each call and the trace specification admits only delta 0; the lock protocol itself (Mutex.tla) model-checked and a two-thread scenario with the forced-unlock path validated as its behaviour; a case is one validated call; distinct = distinct model transitions "
                       "(x failure positions) + half of the random events")
