"""C06 - static hash table is an exact bounded map with exact space accounting."""
import pipeline, hasharr_common


def run(chk, tier, seed):
    pipeline.run_container(chk, tier, seed, hasharr_common, owned={"result", "state"})
    chk.cov["exhaustive"] = not chk.infra
    chk.cov["rule"] = ("every transition of the HashArrImpl.tla model (slot array transcription with scaled slot payloads; all reachable images for "
                       "2-4 slots and 3-4 keys over the listed collision patterns; put with 1-3 slot values, get, remove, remove-by-index of every slot, "
                       "clear) replayed on the real qhasharr with real lengths on both sides of every slot boundary and short/long keys, plus seeded random "
                       "histories for capacities 2..64 driven past full; a case is one validated event; distinct = distinct model transitions + half of "
                       "the random events")
