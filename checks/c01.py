"""C01 - tree table is an exact sorted map for every operation history."""
import pipeline, tree_common


def run(chk, tier, seed):
    pipeline.run_container(chk, tier, seed, tree_common, owned={"result", "state"})
    chk.cov["exhaustive"] = not chk.infra
    chk.cov["rule"] = ("every transition of the TreeImpl.tla model (LLRB transcription refined to SortedMap.tla; all reachable shapes over the key "
                       "universe; put/get/remove/min/max/size/clear, and the traversal/search actions for the iterator models) replayed on the real "
                       "qtreetbl under four key/comparator profiles, plus seeded random histories over up to thousands of keys; a case is one "
                       "validated event; distinct = distinct model transitions + half of the random events")
