"""C02 - tree stays a valid left-leaning red-black tree (logarithmic lookups)."""
import pipeline, tree_common


def run(chk, tier, seed):
    pipeline.run_container(chk, tier, seed, tree_common, owned={"valid"})
    # "whether it succeeded or failed": operations that fail for lack of memory count too (every allocation of every call fails once)
    pipeline.run_container(chk, "cross" if tier == "quick" else "quick", seed + 1, tree_common, owned={"valid"}, flagsets=["a"],
                           threads=4, random_tier="cross")
    chk.cov["exhaustive"] = not chk.infra
    chk.cov["rule"] = ("every transition of the TreeImpl.tla models (shape models over 8-12 keys; iterator models with per-node stamps, parent links, "
                       "epoch counter modulo 4 and client cursor over 3-5 keys) replayed on the real qtreetbl with the real 8-bit epoch counter advanced "
                       "to its wrap-around by API preludes, plus seeded random histories and walk bursts; the smaller models again with every allocation inside every call failing once; decisive oracle for this property: 'valid' "
                       "conjunct of TreeTrace.tla; a case is one validated event; distinct = distinct model transitions + half of the random events")
