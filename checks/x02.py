"""X02 (not a listed property) - the documented "removal in an iteration loop" of the tree table (getnext; removeobj; find_nearest
to rewind; go on) stays memory-safe, ends, rewinds to the floor of the removed key and never returns a key twice."""
import pipeline, tree_common
LEVEL = "model_checking"


def run(chk, tier, seed):
    only = lambda m: m["tag"].startswith("iter")
    pipeline.run_container(chk, tier, seed, tree_common, owned={"rmloop", "crash", "timeout", "result", "state", "valid"}, model_filter=only)
    chk.cov["exhaustive"] = not chk.infra
    chk.cov["rule"] = ("TreeImpl.tla action RemoveInLoop (remove the key just returned by getnext, re-seat the cursor with the nearest-key "
                       "search on that key) in every state of the iterator models, invariant Good (no dangling link followed, fuel not exhausted, "
                       "search result = floor of the removed key, keys returned in ascending order); every transition replayed on the real tree "
                       "table, plus random removal loops on trees of 1-60 keys; a full sweep after a removal is not promised by the documentation "
                       "and is not demanded")
